#!/bin/bash
# Builds the overlay venv /verif/.venv offline: /venv's interpreter and packages + z3-solver, cvc5, crosshair-tool
# from the wheelhouse. Idempotent; every ./check call re-runs it when the overlay is missing.
set -e
cd "$(dirname "$0")"
V=/verif/.venv
if [ -x $V/bin/python ] && $V/bin/python -c "import z3, sympy, symengine, crosshair" 2>/dev/null; then
  exit 0
fi
rm -rf $V
/venv/bin/python -m venv $V
SP=$($V/bin/python -c "import sysconfig; print(sysconfig.get_paths()['purelib'])")
echo "import site; site.addsitedir('/venv/lib/python3.12/site-packages')" > $SP/_polar_overlay.pth
PIP_NO_INDEX=1 $V/bin/pip install --quiet --no-index --find-links /opt/veriftools/wheels z3-solver crosshair-tool cvc5 >/dev/null 2>&1 || \
PIP_NO_INDEX=1 $V/bin/pip install --no-index --find-links /opt/veriftools/wheels z3-solver crosshair-tool cvc5
$V/bin/python -c "import z3, sympy, symengine, crosshair; print('overlay ok', z3.get_version_string())"
