"""C11 -- central moments, cumulants, tail bounds, Gram-Charlier / Cornish-Fisher expansions, goal syntax."""
import contextlib
import io
import itertools
import re
import sys
from argparse import Namespace
from fractions import Fraction
from math import comb as pycomb
from vlib import polar_iface  # noqa
from vlib import smt, jobs, families
from vlib.findings import Run
from vlib.qpoly import QPoly
from vlib.lang import arith, expr2q, parse_text
from vlib.s2z import Tr, at_n, Untranslatable

KMAX = 6
CUMULANT_FORMULAS = {  # textbook, in raw moments m1..m6
    1: "m1", 2: "m2 - m1**2", 3: "m3 - 3*m2*m1 + 2*m1**3", 4: "m4 - 4*m3*m1 - 3*m2**2 + 12*m2*m1**2 - 6*m1**4",
    5: "m5 - 5*m4*m1 - 10*m3*m2 + 20*m3*m1**2 + 30*m2**2*m1 - 60*m2*m1**3 + 24*m1**5",
    6: "m6 - 6*m5*m1 - 15*m4*m2 + 30*m4*m1**2 - 10*m3**2 + 120*m3*m2*m1 - 120*m3*m1**3 + 30*m2**3 - 270*m2**2*m1**2 + 360*m2*m1**4 - 120*m1**6",
}


class Ctx:
    def __init__(self):
        import z3
        self.z = {}
        self.stats = smt.new_stats()
        self.records = []
        self.checked = 0
        self.mutants = 0

    def zv(self, n):
        import z3
        if n not in self.z:
            self.z[n] = z3.Real(n)
        return self.z[n]

    def tz(self, e):
        """sympy/symengine expression -> z3 real"""
        import sympy as sp
        t = Tr(sym=self.zv)
        re, im = t.tr(sp.sympify(e))
        if im is not None:
            raise Untranslatable("complex")
        return re, t.constraints()

    def identity(self, lhs, rhs, assume, tag, key, what, mutant=False, timeout=60000):
        """lhs == rhs for all symbol values (under assume)?"""
        import z3
        try:
            a, ca = self.tz(lhs)
            b, cb = self.tz(rhs)
        except (Untranslatable, Exception) as e:  # noqa
            self.records.append({"kind": "inconclusive", "tag": tag, "why": f"translation {type(e).__name__}: {e}"[:140]})
            return None
        cons = list(assume) + ca + cb
        v, model = smt.decide(cons + [a != b], self.stats, timeout, tag=tag)
        self.checked += 1
        if mutant:
            mv, _ = smt.decide(cons + [a != b + 1], None, 20000)
            self.mutants += 1
            if mv != "sat":
                self.records.append({"kind": "harness", "tag": tag, "why": "self-mutant not refuted"})
        if v == "sat":
            import sympy as sp
            sub = {s: sp.Rational(model.get(s.name, 0)) for s in (sp.sympify(lhs).free_symbols | sp.sympify(rhs).free_symbols)}
            try:
                lv, rv = sp.simplify(sp.sympify(lhs).xreplace(sub)), sp.simplify(sp.sympify(rhs).xreplace(sub))
                rep = sp.simplify(lv - rv) != 0
            except Exception:
                rep = True
                lv = rv = "?"
            if rep:
                self.records.append({"kind": "violation", "key": key, "tag": tag, "what": f"{what}: real code gives {lv}, definition gives {rv} at {dict((str(k), str(v_)) for k, v_ in sub.items())}",
                                     "replay": {"lhs": str(lhs), "rhs": str(rhs), "values": {str(k): str(v_) for k, v_ in sub.items()}}})
            else:
                self.records.append({"kind": "harness", "tag": tag, "why": "model did not replay"})
        elif v != "unsat":
            self.records.append({"kind": "inconclusive", "tag": tag, "why": "solver unknown"})
        return v


def guarded(C, name, fn):
    """the conversion functions are total on moment vectors: an exception of the real code is a violation, not a harness crash"""
    def wrapped(*a, **k):
        try:
            return fn(*a, **k)
        except Exception as e:  # noqa
            C.records.append({"kind": "violation", "key": f"{name}|raises|{type(e).__name__}", "tag": name,
                              "what": f"{name} raises {type(e).__name__}: {str(e)[:120]} on a symbolic moment vector", "replay": {"function": name}})
            raise _Skip()
    return wrapped


class _Skip(Exception):
    pass


def job_conversions(_):
    C = Ctx()
    try:
        return _job_conversions(C)
    except _Skip:
        return {"records": C.records, "stats": C.stats, "checked": C.checked, "mutants": C.mutants}


def _job_conversions(C):
    import sympy as sp
    import z3
    import utils
    raw_moments_to_centrals = guarded(C, "raw_moments_to_centrals", utils.raw_moments_to_centrals)
    raw_moments_to_cumulants = guarded(C, "raw_moments_to_cumulants", utils.raw_moments_to_cumulants)
    # generic finite law: atoms x1..x3, weights w1, w2, 1 - w1 - w2 (substituted, so that identities are polynomial)
    xs = sp.symbols("x1 x2 x3")
    w1, w2 = sp.symbols("w1 w2")
    ws = [w1, w2, 1 - w1 - w2]
    mom = {k: sp.expand(sum(w * x ** k for w, x in zip(ws, xs))) for k in range(1, KMAX + 1)}
    mu = mom[1]
    cen = raw_moments_to_centrals(dict(mom))
    for k in range(1, KMAX + 1):
        truth = sp.expand(sum(w * (x - mu) ** k for w, x in zip(ws, xs)))
        C.identity(cen[k], truth, [], f"central({k})", f"raw_moments_to_centrals|{k}", f"raw_moments_to_centrals: c{k} of a generic 3-atom law", mutant=(k == 2))
    # cumulants: explicit polynomials in symbolic moments
    ms = {k: sp.Symbol(f"m{k}") for k in range(1, KMAX + 1)}
    cum = raw_moments_to_cumulants(dict(ms))
    for k in range(1, KMAX + 1):
        C.identity(cum[k], sp.sympify(CUMULANT_FORMULAS[k]), [], f"cumulant({k})", f"raw_moments_to_cumulants|{k}", f"raw_moments_to_cumulants: k{k}", mutant=(k == 3))
    # additivity over independent sums, shift invariance, homogeneity (defining properties), k <= 5
    a = {k: sp.Symbol(f"a{k}") for k in range(1, 6)}
    b = {k: sp.Symbol(f"b{k}") for k in range(1, 6)}
    a[0] = b[0] = sp.Integer(1)
    msum = {k: sp.expand(sum(sp.binomial(k, j) * a[j] * b[k - j] for j in range(k + 1))) for k in range(1, 6)}
    ca = raw_moments_to_cumulants({k: a[k] for k in range(1, 6)})
    cb = raw_moments_to_cumulants({k: b[k] for k in range(1, 6)})
    cs = raw_moments_to_cumulants(dict(msum))
    for k in range(1, 6):
        C.identity(cs[k], ca[k] + cb[k], [], f"cumulant-additivity({k})", f"raw_moments_to_cumulants|additivity|{k}", f"k{k}(X+Y) for independent X, Y")
    c = sp.Symbol("c")
    mshift = {k: sp.expand(sum(sp.binomial(k, j) * a[j] * c ** (k - j) for j in range(k + 1))) for k in range(1, 6)}
    mscale = {k: c ** k * a[k] for k in range(1, 6)}
    csh = raw_moments_to_cumulants(dict(mshift))
    csc = raw_moments_to_cumulants(dict(mscale))
    for k in range(1, 6):
        C.identity(csh[k], ca[k] + (c if k == 1 else 0), [], f"cumulant-shift({k})", f"raw_moments_to_cumulants|shift|{k}", f"k{k}(X + c)")
        C.identity(csc[k], c ** k * ca[k], [], f"cumulant-scale({k})", f"raw_moments_to_cumulants|scale|{k}", f"k{k}(c X)")
    return {"records": C.records, "stats": C.stats, "checked": C.checked, "mutants": C.mutants}


def _handler_env(K):
    """GoalsAction with get_all_moments stubbed to return the symbols m1..mK (environment stub, listed in the evidence)"""
    import sympy as sp
    import cli.actions.goals_action as GA
    ns = Namespace(after_loop=False, at_n=-1, tail_bound_moments=K, invariants=False, goals=[])
    act = GA.GoalsAction(ns)
    act.initialize_program(None, None)

    def stub(monom, max_moment, solvers, rec_builder, cli_args, program):
        return {i: sp.Symbol(f"m{i}") for i in reversed(range(1, max_moment + 1))}, True
    return GA, act, stub


def job_handlers(_):
    import sympy as sp
    import z3
    C = Ctx()
    K = 4
    GA, act, stub = _handler_env(K)
    orig = GA.get_all_moments
    GA.get_all_moments = stub
    try:
        x = sp.Symbol("x")
        ms = {k: sp.Symbol(f"m{k}") for k in range(1, KMAX + 1)}
        from utils import raw_moments_to_centrals, raw_moments_to_cumulants
        for num in range(1, 5):
            cm, ex = act.handle_central_moment_goal([num, x])
            truth = sp.expand(sum(sp.binomial(num, j) * (-ms[1]) ** (num - j) * (ms[j] if j else 1) for j in range(num + 1)))
            C.identity(cm, truth, [], f"handle_central_moment_goal({num})", f"handle_central_moment_goal|{num}", f"c{num}(x) in terms of raw moments")
            cu, ex = act.handle_cumulant_goal([num, x])
            C.identity(cu, sp.sympify(CUMULANT_FORMULAS[num]), [], f"handle_cumulant_goal({num})", f"handle_cumulant_goal|{num}", f"k{num}(x) in terms of raw moments")
        # tail bounds: parse the printed bounds (the observable) and prove them valid for every 3-atom law
        a = sp.Symbol("a")
        buf = io.StringIO()
        with contextlib.redirect_stdout(buf):
            act.handle_tail_bound_upper_goal([x, a])
        printed = re.findall(r"\(\d+\)\s*(.*)", buf.getvalue())
        if len(printed) != K:
            C.records.append({"kind": "harness", "tag": "tail-upper", "why": f"expected {K} printed bounds, got {printed}"})
        xs = [z3.Real(f"x{i}") for i in range(1, 4)]
        ws = [z3.Real(f"w{i}") for i in range(1, 4)]
        az = C.zv("a")
        law = [w >= 0 for w in ws] + [ws[0] + ws[1] + ws[2] == 1] + [az > 0]
        momz = {}
        for k in range(1, K + 1):
            t = z3.RealVal(0)
            for xi, wi in zip(xs, ws):
                p = wi
                for _ in range(k):
                    p = p * xi
                t = t + p
            momz[k] = t
        for i, s in enumerate(printed):
            be = sp.sympify(s)
            bz, cons = C.tz(be)
            bz = z3.substitute(bz, *[(C.zv(f"m{k}"), momz[k]) for k in range(1, K + 1)])
            prob = sum((z3.If(xi >= az, wi, z3.RealVal(0)) for xi, wi in zip(xs, ws)), z3.RealVal(0))
            v, model = smt.decide(law + [xi >= 0 for xi in xs] + cons + [prob > bz], C.stats, 60000, tag=f"tail-upper:bound{i + 1}:{s}")
            C.checked += 1
            if i == 0:
                mv, _ = smt.decide(law + [xi >= 0 for xi in xs] + cons + [prob > bz / 2], None, 20000)
                C.mutants += 1
                if mv != "sat":
                    C.records.append({"kind": "harness", "tag": "tail-upper", "why": "self-mutant (half the bound) not refuted"})
            if v == "sat":
                C.records.append({"kind": "violation", "key": f"tail-upper|{s}", "tag": "tail-upper",
                                  "what": f"printed upper bound {s} for P(x >= a) is exceeded by the law {model}", "replay": {"bound": s, "model": {k: str(v_) for k, v_ in model.items()}}})
            elif v != "unsat":
                C.records.append({"kind": "inconclusive", "tag": f"tail-upper:{s}", "why": "solver unknown"})
        buf = io.StringIO()
        with contextlib.redirect_stdout(buf):
            act.handle_tail_bound_lower_goal([x, a])
        m = re.search(r"P\(x > a\) >= (.*)", buf.getvalue())
        if not m:
            C.records.append({"kind": "harness", "tag": "tail-lower", "why": f"could not find the printed bound in {buf.getvalue()!r}"})
        else:
            be = sp.sympify(m.group(1))
            bz, cons = C.tz(be)
            bz = z3.substitute(bz, *[(C.zv(f"m{k}"), momz[k]) for k in range(1, 3)])
            prob = sum((z3.If(xi > az, wi, z3.RealVal(0)) for xi, wi in zip(xs, ws)), z3.RealVal(0))
            v, model = smt.decide(law + [xi - az >= 0 for xi in xs] + cons + [prob < bz], C.stats, 120000, tag=f"tail-lower:{m.group(1)}")
            C.checked += 1
            if v == "sat":
                C.records.append({"kind": "violation", "key": "tail-lower", "tag": "tail-lower",
                                  "what": f"printed lower bound {m.group(1)} for P(x > a) is not attained by the law {model}", "replay": {"bound": m.group(1), "model": {k: str(v_) for k, v_ in model.items()}}})
            elif v != "unsat":
                C.records.append({"kind": "inconclusive", "tag": "tail-lower", "why": "solver unknown"})
    finally:
        GA.get_all_moments = orig
    return {"records": C.records, "stats": C.stats, "checked": C.checked, "mutants": C.mutants}


def moments_from_cumulants(kap, K, sp):
    m = {0: sp.Integer(1)}
    for n in range(1, K + 1):
        m[n] = sp.expand(sum(sp.binomial(n - 1, k - 1) * kap[k] * m[n - k] for k in range(1, n + 1)))
    return m


def normal_moment(mu, s2, j, sp):
    m = [sp.Integer(1), mu]
    for i in range(1, j):
        m.append(mu * m[i] + i * s2 * m[i - 1])
    return m[j]


def job_expansions(K):
    import sympy as sp
    import sympy.stats  # noqa
    import z3
    from expansions import GramCharlierExpansion, CornishFisherExpansion
    C = Ctx()
    s = sp.Symbol("s", positive=True)
    kap = {1: sp.Symbol("k1"), 2: s ** 2}
    for i in range(3, K + 1):
        kap[i] = sp.Symbol(f"k{i}")
    assume = [C.zv("s") > 0]
    # Gram-Charlier: int x^j poly(x) phi(x) dx, termwise with reference normal moments, equals the raw moment implied by the cumulants
    try:
        with polar_iface.time_limit(120):
            gc = sp.sympify(GramCharlierExpansion({i: kap[i] for i in range(1, K + 1)})())
            gc = gc.xreplace({sp.Symbol("s"): s})   # the symengine round trip drops the positivity assumption
            x = sp.Symbol("x")
            textbook = sp.exp(-(x - kap[1]) ** 2 / (2 * s ** 2)) / (s * sp.sqrt(2 * sp.pi))
            phi = sp.stats.density(sp.stats.Normal("_", kap[1], s))(x)
            if sp.simplify(phi / textbook - 1) != 0:
                raise Untranslatable("sympy's normal density is not the textbook density")
            poly = sp.expand(sp.simplify(gc / phi))
            P = sp.Poly(poly, x)
        truth = moments_from_cumulants(kap, K, sp)
        for j in range(0, K + 1):
            val = sp.Integer(0)
            for (e,), c in P.terms():
                val += c * normal_moment(kap[1], s ** 2, e + j, sp)
            C.identity(sp.expand(val), truth[j], assume, f"gram-charlier(K={K}):moment({j})", f"GramCharlier|K={K}|moment{j}",
                       f"Gram-Charlier density from {K} cumulants: {j}-th raw moment" + (" (total mass)" if j == 0 else ""), mutant=(j == 1))
    except polar_iface.JobTimeout:
        C.records.append({"kind": "inconclusive", "tag": f"gram-charlier(K={K})", "why": "timeout"})
    except Exception as e:  # noqa
        C.records.append({"kind": "inconclusive", "tag": f"gram-charlier(K={K})", "why": f"{type(e).__name__}: {e}"[:160]})
    # Cornish-Fisher: the standard expansion
    try:
        with polar_iface.time_limit(120):
            cf = sp.sympify(CornishFisherExpansion({i: kap[i] for i in range(1, K + 1)})())
        z = sp.Symbol("z")
        p = sp.Symbol("p")
        cf = cf.xreplace({sp.Symbol("s"): s})
        cf = cf.xreplace({sp.erfinv(2 * p - 1): z / sp.sqrt(2)})
        cf = sp.simplify(cf)
        if cf.has(sp.erfinv) or cf.has(p):
            raise Untranslatable("erfinv not eliminated")
        g1 = kap[3] / s ** 3 if K >= 3 else 0
        g2 = kap[4] / s ** 4 if K >= 4 else 0
        g3 = kap[5] / s ** 5 if K >= 5 else 0
        w = z
        if K >= 3:
            w += g1 * (z ** 2 - 1) / 6
        if K >= 4:
            w += g2 * (z ** 3 - 3 * z) / 24 - g1 ** 2 * (2 * z ** 3 - 5 * z) / 36
        if K >= 5:
            w += g3 * (z ** 4 - 6 * z ** 2 + 3) / 120 - g1 * g2 * (z ** 4 - 5 * z ** 2 + 2) / 24 + g1 ** 3 * (12 * z ** 4 - 53 * z ** 2 + 17) / 324
        C.identity(sp.expand(cf), sp.expand(kap[1] + s * w), assume, f"cornish-fisher(K={K})", f"CornishFisher|K={K}", f"Cornish-Fisher expansion from {K} cumulants", mutant=True)
        # a second expansion in the same process (another random variable): nothing of the first one may survive.  The
        # cumulants of the standard normal give the quantile z itself, those of mean 3 / variance 4 give 3 + 2z
        for kv, expect in (({i: (1 if i == 2 else 0) for i in range(1, K + 1)}, z), ({i: (3 if i == 1 else 4 if i == 2 else 0) for i in range(1, K + 1)}, 3 + 2 * z)):
            with polar_iface.time_limit(60):
                cf2 = sp.sympify(CornishFisherExpansion({i: sp.Integer(v) for i, v in kv.items()})())
            cf2 = sp.simplify(cf2.xreplace({sp.erfinv(2 * p - 1): z / sp.sqrt(2)}))
            C.identity(sp.expand(cf2), sp.expand(expect), assume, f"cornish-fisher(K={K}):second", f"CornishFisher|K={K}|after-another-expansion",
                       f"Cornish-Fisher expansion of a normal law computed after another expansion in the same process")
    except polar_iface.JobTimeout:
        C.records.append({"kind": "inconclusive", "tag": f"cornish-fisher(K={K})", "why": "timeout"})
    except Exception as e:  # noqa
        C.records.append({"kind": "inconclusive", "tag": f"cornish-fisher(K={K})", "why": f"{type(e).__name__}: {e}"[:160]})
    return {"records": C.records, "stats": C.stats, "checked": C.checked, "mutants": C.mutants}


def job_comb(_):
    """comb(n,k) against Pascal's triangle for all n, k <= 64 (finite domain, enumerated completely; the witness search is a z3 table query)"""
    import z3
    from utils.statistics import comb
    C = Ctx()
    N = 64
    T = [[0] * (N + 1) for _ in range(N + 1)]
    for n in range(N + 1):
        T[n][0] = 1
        for k in range(1, n + 1):
            T[n][k] = T[n - 1][k - 1] + (T[n - 1][k] if k <= n - 1 else 0)
    n_, k_ = z3.Int("n"), z3.Int("k")
    diff = z3.IntVal(0)
    for n in range(N + 1):
        for k in range(N + 1):
            d = comb(n, k) - (T[n][k] if k <= n else 0)
            if d != 0:
                diff = z3.If(z3.And(n_ == n, k_ == k), z3.IntVal(d), diff)
    v, model = smt.decide([n_ >= 0, n_ <= N, k_ >= 0, k_ <= N, diff != 0], C.stats, 30000, tag="comb-table")
    C.checked += 1
    if v == "sat":
        n, k = int(model["n"]), int(model["k"])
        if comb(n, k) != pycomb(n, k):
            C.records.append({"kind": "violation", "key": "comb", "tag": "comb", "what": f"utils.statistics.comb({n}, {k}) = {comb(n, k)}, the binomial coefficient is {pycomb(n, k)}",
                              "replay": {"n": n, "k": k, "polar": comb(n, k), "exact": pycomb(n, k)}})
    return {"records": C.records, "stats": C.stats, "checked": C.checked, "mutants": C.mutants}


GOALS = [("E(x)", "MOMENT", None, "x"), ("x", "MOMENT", None, "x"), ("E(x**2*y)", "MOMENT", None, "x**2*y"), ("E( x*y )", "MOMENT", None, "x*y"), ("x**3", "MOMENT", None, "x**3"),
         ("k3(x)", "CUMULANT", 3, "x"), ("k12(x*y)", "CUMULANT", 12, "x*y"), ("c2(x)", "CENTRAL", 2, "x"), ("c4( x**2 )", "CENTRAL", 4, "x**2"), ("k1(kx)", "CUMULANT", 1, "kx"),
         ("E(cx)", "MOMENT", None, "cx"), ("P(x >= 5) <= ?", "TAIL_BOUND_UPPER", "x", "5"), ("P(x*y >= 1/2) <= ?", "TAIL_BOUND_UPPER", "x*y", "1/2"), ("P(x > 3) >= ?", "TAIL_BOUND_LOWER", "x", "3"),
         ("P(x**2 >= 10)<=?", "TAIL_BOUND_UPPER", "x**2", "10"), ("P(x>2.5)>=?", "TAIL_BOUND_LOWER", "x", "2.5"), ("E(kappa)", "MOMENT", None, "kappa"), ("E(c)", "MOMENT", None, "c"),
         ("P(x >= a) <= ?", "TAIL_BOUND_UPPER", "x", "a")]
BAD_GOALS = ["E(x", "k(x)", "q(x)", "kx(x)", "P(x >= ) <= ?", "P(x < 3) <= ?", "c(x)", "E)x("]


def job_goal_syntax(_):
    import z3
    from inputparser import GoalParser
    C = Ctx()
    for text, kind, a1, a2 in GOALS:
        tag = f"goal:{text}"
        try:
            k, data = GoalParser.parse(text)
        except Exception as e:
            C.records.append({"kind": "violation", "key": f"goal|{text}", "tag": tag, "what": f"goal {text!r} is rejected: {type(e).__name__} {e}", "replay": {"goal": text}})
            continue
        ok = (k == kind)
        exprs = []
        if kind in ("CUMULANT", "CENTRAL"):
            ok = ok and int(data[0]) == a1
            exprs.append((data[1], a2))
        elif kind == "MOMENT":
            exprs.append((data[0], a2))
        else:
            exprs.append((data[0], a1))
            exprs.append((data[1], a2))
        if not ok:
            C.records.append({"kind": "violation", "key": f"goal|{text}", "tag": tag, "what": f"goal {text!r} parsed as {k} {data}, expected {kind} {a1} {a2}", "replay": {"goal": text}})
            continue
        for got, want in exprs:
            try:
                gq, wq = expr2q(got), arith(want)
            except Exception as e:  # noqa
                C.records.append({"kind": "inconclusive", "tag": tag, "why": f"{type(e).__name__}: {e}"[:120]})
                continue
            v, model = smt.decide([gq.to_z3(C.zv) != wq.to_z3(C.zv)], C.stats, 10000, tag=tag, keep_sample=False)
            C.checked += 1
            if v == "sat":
                C.records.append({"kind": "violation", "key": f"goal|{text}", "tag": tag, "what": f"goal {text!r}: argument parsed as {got}, text denotes {want}", "replay": {"goal": text}})
    for text in BAD_GOALS:
        try:
            k, data = GoalParser.parse(text)
            C.records.append({"kind": "inconclusive", "tag": f"goal:{text}", "why": f"malformed goal accepted as {k} {data} (recorded; the property does not demand rejection)"})
        except Exception:
            pass
    return {"records": C.records, "stats": C.stats, "checked": C.checked, "mutants": C.mutants}


TAIL_PROGRAMS = [("t13", "cnt", ["1", "2", "3"]), ("s14_guard_two_vars", "n1", ["2", "3"]), ("s01_elif_overlap", "x", ["1", "2", "4"])]


def job_tail_program(item):
    """tail bounds on finite-valued programs against the exact tail probability of the reference semantics, n <= N, symbolic parameters"""
    import sympy as sp
    import z3
    from vlib import momentcheck as mc
    from vlib.sem import kstep
    name, var, thresholds, N = item
    C = Ctx()
    import os
    text = open(os.path.join(os.path.dirname(os.path.dirname(os.path.abspath(__file__))), "corpus", f"{name}.prob")).read()
    prog = parse_text(text)
    res = polar_iface.closed_forms(text, [var, f"{var}**2"])
    if res["exc"] or any("cf" not in res["goals"].get(g, {}) for g in (var, f"{var}**2")):
        C.records.append({"kind": "inconclusive", "tag": name, "why": "moments not available"})
        return {"records": C.records, "stats": C.stats, "checked": C.checked, "mutants": C.mutants}
    m1, m2 = sp.sympify(res["goals"][var]["cf"]), sp.sympify(res["goals"][f"{var}**2"]["cf"])
    vq = arith(var)
    for k, I, paths in kstep(prog, N):
        for a in thresholds:
            af = Fraction(a)
            tot = QPoly()
            low = QPoly()
            ok = True
            for p in paths:
                val = I.val(p.env, vq)
                if not val.is_const() or p.pc or p.draws:
                    ok = False
                    break
                if val.cval() < 0:
                    ok = False
                    break
                if val.cval() >= af:
                    tot = tot + p.w
                if val.cval() > af:
                    low = low + p.w
            if not ok:
                continue
            side = []
            pz = tot.to_z3(I.zv, side)
            base = list(I.solver.assertions()) + [s[2] for s in side]
            for j, mk in ((1, m1), (2, m2)):
                t = Tr(sym=I.zv)
                bz, _ = t.tr(at_n(mk, k) / sp.Rational(af) ** j)
                v, model = smt.decide(base + t.constraints() + [pz > bz], C.stats, 30000, tag=f"{name}:P({var}>={a})<=E({var}^{j})/{a}^{j}:n={k}", keep_sample=(k == 2))
                C.checked += 1
                if v == "sat":
                    C.records.append({"kind": "violation", "key": f"{name}|tail|{var}|{a}|{j}", "tag": name,
                                      "what": f"{name}: Markov bound of order {j} for P({var} >= {a}) at n={k} is below the exact tail probability at {model}",
                                      "replay": {"text": text, "var": var, "a": a, "order": j, "n": k, "model": {x: str(y) for x, y in model.items()}}})
    return {"records": C.records, "stats": C.stats, "checked": C.checked, "mutants": C.mutants}


def main():
    run = Run("C11", "other")
    Ks = [3, 4, 5]
    work = [(job_conversions, None, "conversions"), (job_handlers, None, "handlers"), (job_comb, None, "comb"), (job_goal_syntax, None, "goal-syntax")]
    work += [(job_expansions, K, f"expansions(K={K})") for K in Ks]
    work += [(job_tail_program, (n, v, th, 4 if run.quick else 6), f"tail/{n}") for n, v, th in TAIL_PROGRAMS]
    if run.args.only:
        work = [w for w in work if run.args.only in w[2]]

    def dispatch(i):
        f, arg, _ = work[i]
        return f(arg)
    results = jobs.run_jobs(dispatch, [(i,) for i in range(len(work))], timeout=600)
    checked = muts = groups = 0
    for (f, arg, name), (st, val) in zip(work, results):
        if st != "ok":
            run.job_failed(name, st, val)
            continue
        run.add_stats(val["stats"])
        checked += val["checked"]
        muts += val["mutants"]
        groups += 1 if val["checked"] else 0
        for r in val["records"]:
            if r["kind"] == "violation":
                run.violation(r["key"], r["what"], r["replay"])
            elif r["kind"] == "harness":
                run.harness_error(f"{r['tag']}: {r['why']}")
            else:
                run.inconc(f"{r['tag']}: {r['why']}")
    run.sample({"obligations": [w[2] for w in work]})
    run.functions = ["utils.statistics:raw_moments_to_centrals/raw_moments_to_cumulants/comb", "cli.actions.goals_action:GoalsAction.handle_central_moment_goal/handle_cumulant_goal/handle_tail_bound_upper_goal/handle_tail_bound_lower_goal",
                     "expansions.gram_charlier:GramCharlierExpansion", "expansions.cornish_fisher:CornishFisherExpansion", "utils.special_polys:ce_bell_poly/prob_hermite_poly",
                     "inputparser.goal_parser:GoalParser.parse"]
    run.bounds = {"orders": f"k <= {KMAX} (conversions), K in {Ks} (expansions)", "laws": "generic 3-atom laws (atoms and weights symbolic) for definitions and tail bounds; symbolic moment / cumulant vectors",
                  "tail_programs": [t[0] for t in TAIL_PROGRAMS], "comb": "n, k <= 64 enumerated completely", "goal_strings": len(GOALS)}
    run.assumptions = ["get_all_moments is stubbed to return the symbols m1..mK when the handlers are driven (environment stub)",
                       "printed bounds are parsed back with sympy.sympify", "Gram-Charlier integrals are taken termwise with the reference normal moments"]
    run.finish(explanation="identities between the real conversion / expansion code run on symbolic vectors and the definitions, decided by z3 for all values; tail bounds as QF_NRA validity queries over all 3-atom laws",
               evaluations=checked, distinct_nontrivial=groups, rule="obligation groups (conversions, handlers, expansions per K, comb, goal syntax, tail programs)", self_mutants_refuted=muts)


if __name__ == "__main__":
    main()
