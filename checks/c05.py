"""C05 -- inferred finite types contain every value a variable can take.

(Q1) initial block, (Q2) inductive step from an arbitrary typed pre-state (one query per typed variable and path:
value outside the type?) -- unsat for all means the types are an inductive invariant, i.e. hold in every iteration,
including the frozen iterations after the guard is false; (Q3) bounded model checking from the initial block decides
whether an offending state is actually reached (only then it is a violation); (Q4) the source program's own variables
are checked against the types under the source semantics."""
import sys
from fractions import Fraction
from vlib import polar_iface  # noqa
from vlib import smt, jobs, families
from vlib.findings import Run
from vlib.qpoly import QPoly
from vlib.lang import parse_text, read_polar, LangError
from vlib.sem import Unsupported, Interp, kstep, assumptions_for_program
from vlib.onestep import one_iteration
from vlib import momentcheck as mc


def outside(z3, qz, vals):
    return z3.And(*[qz != z3.RealVal(f"{v.numerator}/{v.denominator}") for v in vals])


def check_paths(I, paths, types, skip, stats, tag, out_cands, base=None, k=0, observable=None):
    """for every path and typed variable: can the value lie outside the type?  -> number of queries"""
    import z3
    nq = 0
    base = list(I.solver.assertions()) if base is None else base
    for p in paths:
        for v, vals in types.items():
            if v in skip or v not in p.env:
                continue
            q = p.env[v]
            if I.unset_suffix and any(sy.endswith(I.unset_suffix) and sy[:-len(I.unset_suffix)] in I.vars for sy in q.symbols_deep()):
                # the variable still holds (a function of) an undefined initial value.  Before the first iteration this is
                # not a value the type speaks about (the listed beginning value covers n = 0); for an auxiliary variable it is
                # unobservable (no goal names it, every read follows its assignment under the same guard).  A variable of the
                # source program that still holds it after an iteration (loop never entered, condition never true) does
                # "hold" that value: powers of it are reduced through the type.
                if k == 0 or observable is None or v not in observable:
                    continue
            if q.is_const():
                if q.cval() not in vals:
                    out_cands.append({"var": v, "value": str(q.cval()), "pc": list(p.pc), "model": None, "path": p})
                continue
            if q.symbols_deep() & set(p.draws):
                out_cands.append({"var": v, "value": f"continuous draw {q!r}", "pc": list(p.pc), "model": None, "path": p})
                continue
            side = []
            qz = q.to_z3(I.zv, side)
            vdt, model = smt.decide(base + list(p.pc) + [s[2] for s in side] + [outside(z3, qz, vals)], stats, 20000, tag=f"{tag}:{v}", keep_sample=(nq < 2))
            nq += 1
            if vdt == "sat":
                out_cands.append({"var": v, "value": repr(q), "pc": list(p.pc), "model": model, "path": p})
            elif vdt != "unsat":
                out_cands.append({"var": v, "value": "unknown", "pc": [], "model": None, "path": None, "unknown": True})
    return nq


def bmc(norm, types, skip, K, stats, tag, param_vals=None, observable=None):
    """exact exploration from the initial block: first (k, var, value) outside its type, or None"""
    import z3
    try:
        for k, I, paths in kstep(norm, K, param_vals=param_vals, max_paths=30000):
            cands = []
            check_paths(I, paths, types, skip, stats, f"{tag}:bmc:k={k}", cands, k=k, observable=observable)
            for c in cands:
                if c.get("unknown"):
                    continue
                return {"k": k, "var": c["var"], "value": c["value"], "model": c["model"]}
    except (Unsupported, ZeroDivisionError) as e:
        return {"error": str(e)}
    return None


def job(item):
    import z3
    pid, text = item["id"], item["text"]
    out = {"id": pid, "records": [], "stats": smt.new_stats(), "refusals": [], "skipped": None, "checked": 0, "typed_vars": 0, "mutants": 0, "settings": 0}
    try:
        src = parse_text(text)
    except LangError as e:
        out["skipped"] = f"own reader: {e}"
        return out
    declared = set(src.types)
    for fp in item["fp_iterations"]:
        tag = f"{pid}:fp={fp}"
        try:
            with polar_iface.time_limit(60):
                program = polar_iface.normalized(text, type_fp_iterations=fp)
        except polar_iface.JobTimeout:
            out["refusals"].append({"id": tag, "type": "Timeout", "msg": "normalize", "where": ""})
            continue
        except Exception as e:
            out["refusals"].append({"id": tag, **polar_iface.exc_info(e)})
            continue
        try:
            norm = read_polar(program)
        except NotImplementedError as e:
            out["skipped"] = f"reader of Polar objects: {e}"
            continue
        types = {v: vals for v, vals in norm.types.items()}
        check = {v: vals for v, vals in types.items() if v not in declared}
        if not check:
            continue
        out["settings"] += 1
        out["typed_vars"] += len(check)
        skip = declared
        # Q1 + Q3 (bounded, from the initial block): also guards Q2 against vacuity
        observable = set(src.assigned_vars())
        hit = bmc(norm, check, skip, item["K"], out["stats"], tag, observable=observable)
        if hit and "error" in hit:
            out["records"].append({"kind": "inconclusive", "tag": tag + ":bmc", "why": hit["error"][:150]})
            hit = None
        # Q2 inductive step
        cands = []
        try:
            I, paths = one_iteration(norm, max_paths=8000)
            out["checked"] += check_paths(I, paths, check, skip, out["stats"], tag + ":step", cands)
            out["checked"] += 1
            # self-mutant: a type with one value removed must be refuted by the step or the initial check
            if not out["mutants"]:
                # (a type Polar infers may legitimately be larger than the reachable set, so a particular removal need not
                # be refutable: candidates are tried until one is; the run as a whole must refute some -- see main)
                tried = 0
                for v, vals in check.items():
                    if len(vals) < 2 or tried >= 6:
                        continue
                    for drop in range(min(len(vals), 3)):
                        tried += 1
                        mtv = vals[:drop] + vals[drop + 1:]
                        mc_ = []
                        check_paths(I, paths, {v: mtv}, skip, None, tag + ":mutant", mc_, base=[c for c in I.solver.assertions()])
                        b2 = None if mc_ else bmc(norm, {v: mtv}, skip, 3, None, tag + ":mutant")
                        if mc_ or b2:
                            out["mutants"] += 1
                            break
                    if out["mutants"]:
                        break
                if tried and not out["mutants"]:
                    out["mutants_unrefuted"] = out.get("mutants_unrefuted", 0) + 1
        except (Unsupported, ZeroDivisionError) as e:
            out["records"].append({"kind": "inconclusive", "tag": tag + ":step", "why": f"oracle: {e}"[:150]})
        if hit:
            vals = mc.sym_values(hit["model"], set(hit["model"])) if hit["model"] else {}
            # replay: exact re-execution at the model's parameter values
            again = bmc(norm, check, skip, hit["k"], None, tag, param_vals=vals, observable=observable) if vals else hit
            if again and "error" not in again:
                t = check[hit["var"]]
                key = f"{pid}|fp={fp}|{hit['var']}"
                standins = any(a.kind == "dist" and a.payload[0] == "Bernoulli" and any(sy.startswith("_prob") for q in a.payload[1] for sy in q.symbols())
                               for a in norm.all_assigns(norm.body))
                if standins and (hit["var"] + "0") in vals and hit["var"] not in set(src.assigned_vars(src.initial)):
                    # the loop guard is not decidable on the initial values (it was abstracted into a stand-in with a symbolic
                    # probability): the repair dff67f2 keeps the old behaviour there, see known_findings.json
                    key = "uninitialised variable under a loop guard that is abstracted (symbolic guard)"
                out["records"].append({"kind": "violation", "key": key, "tag": tag,
                                       "what": f"type_fp_iterations={fp}: {hit['var']} : Finite({', '.join(map(str, t))}) but after {hit['k']} iteration(s) it holds {again['value']}"
                                               + (f" at {dict((k, str(v)) for k, v in vals.items())}" if vals else ""),
                                       "replay": {"text": text, "fp_iterations": fp, "variable": hit["var"], "type": [str(x) for x in t], "iteration": hit["k"],
                                                  "value": again["value"], "values": {k: str(v) for k, v in vals.items()}, "normalized": repr(norm)}})
            else:
                out["records"].append({"kind": "harness", "tag": tag, "why": f"bounded witness did not replay: {hit}"[:200]})
        elif cands:
            unk = [c for c in cands if c.get("unknown")]
            real = [c for c in cands if not c.get("unknown")]
            if real:
                c = real[0]
                out["records"].append({"kind": "inconclusive", "tag": tag + ":step",
                                       "why": f"types are not inductive ({c['var']} may become {c['value']}) but no offending state is reached within {item['K']} iterations: invariant too weak, not a finding"})
            if unk:
                out["records"].append({"kind": "inconclusive", "tag": tag + ":step", "why": "solver unknown"})
        else:
            out["inductive"] = out.get("inductive", 0) + 1
        # Q4 source semantics: typed source variables at iteration boundaries
        try:
            srcvars = set(src.assigned_vars())
            st = {v: vals for v, vals in check.items() if v in srcvars}
            if st:
                hit2 = bmc(src, st, skip, min(item["K"], 4), out["stats"], tag + ":source", observable=observable)
                if hit2 and "error" not in hit2:
                    out["records"].append({"kind": "violation", "key": f"{pid}|fp={fp}|{hit2['var']}|source", "tag": tag,
                                           "what": f"source semantics: {hit2['var']} : Finite({', '.join(map(str, st[hit2['var']]))}) but holds {hit2['value']} after {hit2['k']} iteration(s)",
                                           "replay": {"text": text, "fp_iterations": fp, "variable": hit2["var"], "iteration": hit2["k"], "value": hit2["value"]}})
        except Exception as e:  # noqa
            out["records"].append({"kind": "inconclusive", "tag": tag + ":source", "why": f"{type(e).__name__}: {e}"[:150]})
    return out


def main():
    run = Run("C05", "other")
    fps = [100, 1] if run.quick else [100, 0, 1, 2, 5]
    items = []
    for pid, text, goals in families.corpus() + families.corpus("corpus_neg") + families.repo_benchmarks(run.quick, run.seed, limit_quick=12) + \
            families.generated(run.quick, run.seed, count=(80 if run.quick else 800)) + families.symbolic_templates(run.quick, run.seed):
        items.append({"id": pid, "text": text, "fp_iterations": fps, "K": 4 if run.quick else 6})
    if run.args.only:
        items = [i for i in items if run.args.only in i["id"]]
    results = jobs.run_jobs(job, items, timeout=240 if run.quick else 600)
    run.notes.append({"slowest_jobs": jobs.slowest(items, lambda it: it["id"])})
    programs = checked = tv = ind = muts = settings = 0
    for it, (st, val) in zip(items, results):
        if st != "ok":
            run.job_failed(it['id'], st, val)
            continue
        run.add_stats(val["stats"])
        for r in val["refusals"]:
            run.refusal(r)
        if val["skipped"]:
            run.inconc(f"{it['id']}: outside the oracle ({val['skipped']})")
        if val["settings"]:
            programs += 1
        checked += val["checked"]
        tv += val["typed_vars"]
        ind += val.get("inductive", 0)
        muts += val["mutants"]
        settings += val["settings"]
        for r in val["records"]:
            if r["kind"] == "violation":
                run.violation(r["key"], r["what"], r["replay"])
            elif r["kind"] == "harness":
                run.harness_error(f"{r['tag']}: {r['why']}")
            else:
                run.inconc(f"{r['tag']}: {r['why']}")
        if val["settings"] and len(run.samples) < 6:
            run.sample({"program": it["id"], "text": it["text"][:300], "typed_variables_checked": val["typed_vars"]})
    if programs and not muts:
        run.harness_error("no self-mutant (a type with one value removed) was refuted in the whole run")
    run.functions = ["type_inference.finite_fixed_point_typer:FiniteFixedPointTyper.infer_types/_progress/_initialize_state/_extract_types",
                     "program.transformer.type_inferer:TypeInferer.execute", "program.assignment.*:get_support", "program.condition.*:is_implied_by_loop_guard"]
    run.bounds = {"family": "corpus + repo benchmarks + generated family + symbolic templates", "type_fp_iterations": fps,
                  "step": "arbitrary pre-state with typed variables in their types => inductive => every iteration", "bmc_iterations": items[0]["K"] if items else 0,
                  "outside": "user-declared types are assumptions; programs the oracle cannot read"}
    run.assumptions = ["user-declared types are taken as given", "probabilities in [0,1]; a branch of a choice with probability polynomial p is treated as possible"]
    run.finish(explanation="per typed variable and path of one iteration from an arbitrary typed pre-state: value outside the type is unsatisfiable (z3); bounded exploration from the initial block decides reachability of offending states",
               evaluations=checked, distinct_nontrivial=tv, rule="distinct (program, setting, typed variable) triples", programs=programs,
               settings_checked=settings, inductive_type_sets=ind, self_mutants_refuted=muts)


if __name__ == "__main__":
    main()
