"""C06 -- every reported invariant vanishes on the goal sequences (all n for rational bases via the prime-power
abstraction; n0..n0+8 exactly for other algebraic bases).   C07 lives in c07.py and shares vlib/invfam.py."""
import sys
from fractions import Fraction
from vlib import polar_iface  # noqa
from vlib import smt, jobs, invfam, families
from vlib.findings import Run
from vlib.s2z import Tr, Untranslatable, N1, N2, at_n


def job(item):
    import sympy as sp
    import z3
    tup, rational, which = item["tuple"], item["rational"], item["which"]
    name = "(" + "; ".join(tup) + ")" + (f"@counter={item['counter']}" if item.get("counter") else "") + (f"@after({'; '.join(item['prefix'])})" if item.get("prefix") else "")
    out = {"name": name, "records": [], "stats": smt.new_stats(), "refusals": [], "checked": 0, "nontrivial": 0, "basis": None}
    try:
        if item.get("prefix") is not None:
            # another tuple is analysed first in the same process (e.g. the same bases in another order): nothing of it may
            # survive into this analysis
            try:
                invfam.run_real(item["prefix"], 60, 0)
            except Exception:  # noqa
                pass
        if item.get("closed_forms") is not None:
            gsyms, cfs, basis, n0 = item["closed_forms"]()
        else:
            gsyms, cfs, basis = invfam.run_real(tup, item.get("timeout", 120), item.get("counter", 0))
            n0 = 0
    except polar_iface.JobTimeout:
        out["refusals"].append({"id": name, "type": "Timeout", "msg": "InvariantIdeal.compute_basis", "where": ""})
        return out
    except Exception as e:
        out["refusals"].append({"id": name, **polar_iface.exc_info(e)})
        return out
    out["basis"] = [str(b) for b in basis]
    out["checked"] = 1
    out["nontrivial"] = 1 if basis else 0
    if which == "C06":
        for b in basis:
            tag = f"{name}:{b}"
            bad_n = None
            # bounded exact evaluation n0..n0+8 (all tuples): g(values) = 0 decided by z3 on the exact algebraic encoding
            for k in range(n0, n0 + 9):
                try:
                    t = Tr()
                    e = b.xreplace({g: at_n(cf, k) for g, cf in zip(gsyms, cfs)})
                    re, im = t.tr(sp.expand(e))
                    neq = re != 0 if im is None else z3.Or(re != 0, im != 0)
                    v, _ = smt.decide(t.constraints() + [neq], out["stats"], 20000, tag=tag + f":n={k}", keep_sample=False)
                except (Untranslatable, Exception) as ex:  # noqa
                    out["records"].append({"kind": "inconclusive", "tag": tag + f":n={k}", "why": f"{type(ex).__name__}: {ex}"[:150]})
                    continue
                if v == "sat":
                    bad_n = k
                    break
                if v != "unsat":
                    out["records"].append({"kind": "inconclusive", "tag": tag + f":n={k}", "why": "solver unknown"})
            if bad_n is not None:
                val = sp.simplify(b.xreplace({g: at_n(cf, bad_n) for g, cf in zip(gsyms, cfs)}))
                if val != 0:
                    out["records"].append({"kind": "violation", "key": f"{name}|{b}", "what": f"InvariantIdeal{name}: reported invariant {b} evaluates to {val} at n={bad_n}",
                                           "replay": {"closed_forms": tup, "invariant": str(b), "n": bad_n, "value": str(val)}})
                else:
                    out["records"].append({"kind": "harness", "tag": tag, "why": f"sat at n={bad_n} but sympy evaluates to 0"})
                continue
            if rational:
                try:
                    v = invfam.identity_all_n(b, gsyms, cfs, out["stats"], tag + ":all-n")
                except (Untranslatable, Exception) as ex:  # noqa
                    out["records"].append({"kind": "inconclusive", "tag": tag + ":all-n", "why": f"{type(ex).__name__}: {ex}"[:150]})
                    continue
                if v == "unsat":
                    out["all_n"] = out.get("all_n", 0) + 1
                elif v == "sat":
                    out["records"].append({"kind": "inconclusive", "tag": tag + ":all-n", "why": "identity query sat although n0..n0+8 hold (bounded result stands)"})
                else:
                    out["records"].append({"kind": "inconclusive", "tag": tag + ":all-n", "why": "solver unknown"})
    else:  # C07
        if not rational:
            return out
        D = item["D"]
        try:
            res, q = invfam.completeness_query(gsyms, cfs, basis, D, out["stats"], name, n0)
        except (Untranslatable, Exception) as ex:  # noqa
            out["records"].append({"kind": "inconclusive", "tag": name, "why": f"{type(ex).__name__}: {ex}"[:200]})
            return out
        if res == "witness":
            # replay: exact evaluation on the sequences and non-zero remainder
            vals = invfam.exact_values(cfs, range(n0, n0 + 25))
            ok = all(sp.Rational(0) == q.xreplace({g: sp.Rational(v.numerator, v.denominator) for g, v in zip(gsyms, row)}) for row in vals)
            rem = sp.groebner(basis, *gsyms, order="grevlex", domain=sp.QQ).reduce(q)[1] if basis else q
            if ok and rem != 0:
                out["records"].append({"kind": "violation", "key": f"{name}|missing",
                                       "what": f"InvariantIdeal{name} reported basis {[str(b) for b in basis]} but {q} vanishes for all n and is not in the ideal (remainder {rem})",
                                       "replay": {"closed_forms": tup, "basis": [str(b) for b in basis], "missing": str(q)}})
            else:
                out["records"].append({"kind": "harness", "tag": name, "why": f"witness {q} did not replay"})
        elif res == "inconclusive":
            out["records"].append({"kind": "inconclusive", "tag": name, "why": q})
        else:
            out["complete"] = 1
    return out


# closed forms with a symbolic constant that is literally called n (a legal parameter name in a program; the loop counter
# is the INTEGER symbol n): "P" below stands for the parameter.  After the real run the parameter is renamed so that the
# harness never identifies the two.
PARAM_N = [["n*P", "n"], ["n*P + 1", "n", "2**n"], ["P**2*n", "P*n"], ["P*2**n", "2**n", "n"], ["n*(n+1)/2*P", "n"]]


def param_n_run(tup, timeout=120):
    import sympy as sp
    from invariants.invariant_ideal import InvariantIdeal
    P, Pn = sp.Symbol("n"), sp.Symbol("nparam")
    cfs = {f"g{i}": sp.sympify(s_, locals={"n": N1, "P": P}) for i, s_ in enumerate(tup)}
    with polar_iface.time_limit(timeout):
        basis = InvariantIdeal(dict(cfs)).compute_basis()
    gs = [sp.Symbol(f"g{i}") for i in range(len(tup))]
    return gs, [cfs[f"g{i}"].xreplace({P: Pn}) for i in range(len(tup))], [sp.expand(sp.sympify(b)).xreplace({P: Pn}) for b in basis], 0


def main(pid="C06"):
    run = Run(pid, "other")
    tups = invfam.tuples(run.quick, run.seed)
    D = 2 if run.quick else 3
    items = [{"tuple": t, "rational": r, "which": pid, "D": (3 if t in invfam.MUST else D), "timeout": 60 if run.quick else 180} for t, r in tups]
    # the mechanism tuples again with the process-wide fresh-name counter advanced (digit-length boundaries of the generated names)
    for t in invfam.MUST[: (8 if run.quick else len(invfam.MUST))]:
        for c in ((9, 98) if run.quick else (7, 8, 9, 10, 97, 98, 99, 998)):
            items.append({"tuple": t, "rational": True, "which": pid, "D": 3, "timeout": 60, "counter": c})
    # sequences in one process: the same bases met in another order, a subset, a superset
    for pre, t in ((["2**n", "4**n"], ["4**n", "2**n"]), (["4**n", "2**n"], ["2**n", "4**n"]), (["2**n", "3**n", "6**n"], ["6**n", "2**n", "3**n"]),
                   (["(1/2)**n", "4**n"], ["4**n", "(1/2)**n"]), (["2**n", "4**n", "8**n"], ["8**n", "2**n"]), (["n", "2**n"], ["2**n", "n", "4**n"])):
        items.append({"tuple": t, "rational": True, "which": pid, "D": 3, "timeout": 60, "prefix": pre})
    if pid == "C06":
        import functools
        for t in PARAM_N:
            items.append({"tuple": t, "rational": True, "which": pid, "D": 3, "timeout": 60, "closed_forms": functools.partial(param_n_run, t)})
    if run.args.only:
        items = [i for i in items if run.args.only in "; ".join(i["tuple"])]
    results = jobs.run_jobs(job, items, timeout=300 if run.quick else 900)
    checked = nontriv = alln = complete = 0
    for it, (st, val) in zip(items, results):
        if st != "ok":
            run.job_failed(it['tuple'], st, val)
            continue
        run.add_stats(val["stats"])
        checked += val["checked"]
        nontriv += val["nontrivial"]
        alln += val.get("all_n", 0)
        complete += val.get("complete", 0)
        for r in val["refusals"]:
            run.refusal(r)
        for r in val["records"]:
            if r["kind"] == "violation":
                run.violation(r["key"], r["what"], r["replay"])
            elif r["kind"] == "harness":
                run.harness_error(f"{r['tag']}: {r['why']}")
            else:
                run.inconc(f"{r['tag']}: {r['why']}")
        if val["basis"] and len(run.samples) < 6:
            run.sample({"closed_forms": it["tuple"], "reported_basis": val["basis"]})
    # self-mutants
    import sympy as sp
    muts = 0
    g0, g1 = sp.symbols("g0 g1")
    cfs = [invfam.parse_cf("4**n"), invfam.parse_cf("8**n")]
    if pid == "C06":
        if invfam.identity_all_n(g0 - g1, [g0, g1], cfs, None, "mutant") != "sat":
            run.harness_error("self-mutant: false invariant g0 - g1 for (4^n, 8^n) not refuted")
        if invfam.identity_all_n(g0 ** 3 - g1 ** 2, [g0, g1], cfs, None, "mutant") != "unsat":
            run.harness_error("self-check: true invariant g0^3 - g1^2 for (4^n, 8^n) not confirmed")
        muts = 2
    else:
        r, q = invfam.completeness_query([g0, g1], cfs, [], 3, None, "mutant")
        if r != "witness":
            run.harness_error(f"self-mutant: empty basis for (4^n, 8^n) not refuted ({r})")
        r, q = invfam.completeness_query([g0, g1], cfs, [g0 ** 3 - g1 ** 2], 3, None, "mutant")
        if r != "unsat":
            run.harness_error(f"self-check: complete basis for (4^n, 8^n) not confirmed ({r} {q})")
        muts = 2
    run.functions = ["invariants.invariant_ideal:InvariantIdeal.__init__/abstract_exponentials/compute_basis", "invariants.lattice_ideal:LatticeIdeal.compute_basis",
                     "invariants.exponent_lattice:ExponentLattice.compute_basis"]
    if pid == "C06":
        run.bounds = {"tuples": f"{len(items)} tuples of <= 4 exponential polynomials (vlib/invfam.py), polynomial parts degree <= 3",
                      "all_n": "rational bases: identity in (n, p^n per prime, (-1)^n) decided by one query per basis element -- no bound on n",
                      "bounded": "every tuple: exact evaluation at n = n0..n0+8; for non-rational bases this is the only leg"}
        run.assumptions = ["n, p1^n, p2^n, ... are algebraically independent (so identity in the abstraction <=> vanishing for all large n)"]
        run.finish(explanation="per reported basis element: one all-n identity query (prime-power abstraction) and nine exact evaluations decided by z3",
                   evaluations=checked, distinct_nontrivial=nontriv, rule="distinct tuples of closed forms; non-trivial = non-empty reported basis",
                   all_n_identities_closed=alln, self_mutants_refuted=muts)
    else:
        run.bounds = {"tuples": f"{len(items)} tuples (rational bases only for this property)", "degree": D,
                      "query": "exists c in Q^monomials: V c = 0 and normal form of sum c_m m modulo the reported basis != 0 (LRA); sat witnesses must vanish identically for all n before they count",
                      "outside": f"relations of degree > {D}; irrational bases"}
        run.assumptions = ["normal forms modulo the reported generators are computed by sympy.groebner inside the harness (calculator, trusted)",
                           "a polynomial that vanishes on #monomials+4 consecutive sample points and passes the all-n identity query vanishes for all n"]
        run.finish(explanation="per tuple one exact LRA query over all coefficient vectors of degree <= D; unsat means every relation of that degree lies in the reported ideal",
                   evaluations=checked, distinct_nontrivial=nontriv, rule="distinct tuples of closed forms; non-trivial = non-empty reported basis",
                   complete_up_to_degree=complete, self_mutants_refuted=muts)


if __name__ == "__main__":
    main("C06")
