"""C20 -- results are independent of process history, goal order and hash seed.

The quantifier of this property ranges over concrete process runs; those are enumerated (histories of <= 3 analyses in
one interpreter process, permutations of <= 3 goals, several PYTHONHASHSEED values, multi-benchmark CLI runs, a settings
residue).  The solver's part: 'equal up to the names of generated symbols' is decided semantically -- closed forms by z3
equivalence at every n <= N for all parameter values (term order changes with the hash seed, so text comparison would
raise false alarms), invariants by mutual ideal inclusion, types by value sets."""
import itertools
import json
import os
import random
import subprocess
import sys
from concurrent.futures import ThreadPoolExecutor
from vlib import polar_iface  # noqa
from vlib import smt, families
from vlib.findings import Run
from vlib.s2z import Tr, at_n, Untranslatable

PY = "/verif/.venv/bin/python"
HERE = os.path.dirname(os.path.dirname(os.path.abspath(__file__)))


def run_history(history, seed=0, timeout=600):
    env = dict(os.environ)
    env["PYTHONHASHSEED"] = str(seed)
    env["PYTHONPATH"] = HERE + ":" + os.environ.get("POLAR_REPO", "/repo")
    env["PYTHONDONTWRITEBYTECODE"] = "1"
    try:
        p = subprocess.run([PY, "-m", "checks.c20_worker"], input=json.dumps(history), capture_output=True, text=True, timeout=timeout, env=env, cwd=HERE)
    except subprocess.TimeoutExpired:
        return {"worker_error": "timeout"}
    for ln in p.stdout.splitlines():
        if ln.startswith("@@RECORD@@"):
            return json.loads(ln[len("@@RECORD@@"):])
    return {"worker_error": (p.stderr or p.stdout)[-400:]}


def cf_equal(a_repr, b_repr, stats, tag, N=4):
    """-> None if semantically equal at n = 0..N for all symbol values, else description"""
    import sympy as sp
    import z3
    if a_repr is None or b_repr is None:
        return None if a_repr == b_repr else f"one side failed ({'ok' if a_repr else 'failed'} vs {'ok' if b_repr else 'failed'})"
    a, b = sp.sympify(a_repr), sp.sympify(b_repr)
    for k in range(N + 1):
        try:
            t = Tr(uf=True)
            ar, ai = t.tr(at_n(a, k))
            br, bi = t.tr(at_n(b, k))
        except (Untranslatable, Exception) as e:  # noqa
            if sp.simplify(at_n(a, k) - at_n(b, k)) != 0:
                return f"not comparable at n={k}: {e}"
            continue
        v, model = smt.decide(t.constraints() + [z3.Or(ar != br, (ai if ai is not None else z3.RealVal(0)) != (bi if bi is not None else z3.RealVal(0)))], stats, 30000, tag=f"{tag}:n={k}", keep_sample=(k == 1))
        if v == "sat":
            sub = {s: sp.Rational(model.get(s.name, 0)) for s in (at_n(a, k).free_symbols | at_n(b, k).free_symbols)}
            va, vb = sp.simplify(at_n(a, k).xreplace(sub)), sp.simplify(at_n(b, k).xreplace(sub))
            if sp.simplify(va - vb) != 0:
                return f"at n={k}: {va} vs {vb} at {dict((str(x), str(y)) for x, y in sub.items())}"
        elif v != "unsat":
            return None  # inconclusive: not a difference
    return None


def compare(fresh, hist, stats, tag, goal_map=None):
    """-> list of discrepancy strings"""
    import sympy as sp
    out = []
    if "worker_error" in fresh or "worker_error" in hist:
        return [("inconclusive", f"worker: {fresh.get('worker_error') or hist.get('worker_error')}"[:200])]
    if fresh.get("error") != hist.get("error"):
        out.append(("violation", f"error outcome differs: {fresh.get('error')} (fresh process) vs {hist.get('error')}"))
        return out
    for g, a in (fresh.get("goals") or {}).items():
        b = (hist.get("goals") or {}).get(g, "missing")
        if b == "missing":
            continue
        d = cf_equal(a, b, stats, f"{tag}:E({g})")
        if d:
            out.append(("violation", f"E({g}): {d}"))
        if fresh.get("exact", {}).get(g) != hist.get("exact", {}).get(g):
            out.append(("violation", f"exactness / error outcome of E({g}) differs: {fresh['exact'].get(g)} vs {hist['exact'].get(g)}"))
    ft, ht = fresh.get("types") or {}, hist.get("types") or {}
    src = [v for v in ft if not v.startswith("_")]
    for v in src:
        if ft.get(v) != ht.get(v):
            out.append(("violation", f"inferred type of {v} differs: {ft.get(v)} vs {ht.get(v)}"))
    if sorted(map(tuple, (x for v, x in ft.items() if v.startswith("_")))) != sorted(map(tuple, (x for v, x in ht.items() if v.startswith("_")))):
        out.append(("violation", f"inferred types of auxiliary variables differ as multisets: {sorted(ft.items())} vs {sorted(ht.items())}"))
    fi, hi = fresh.get("invariants"), hist.get("invariants")
    if fi is not None or hi is not None:
        if isinstance(fi, str) or isinstance(hi, str) or fi is None or hi is None:
            if fi != hi:
                out.append(("violation", f"invariant outcome differs: {fi} vs {hi}"))
        else:
            A = [sp.sympify(x) for x in fi]
            B = [sp.sympify(x) for x in hi]
            syms = sorted({s for p in A + B for s in p.free_symbols}, key=str)
            for X, Y, nm in ((A, B, "history"), (B, A, "fresh")):
                if not X and not Y:
                    continue
                if not Y:
                    out.append(("violation", f"invariant basis empty on one side only ({nm})"))
                    continue
                G = sp.groebner(Y, *syms, order="grevlex", domain=sp.QQ)
                for p in X:
                    if G.reduce(p)[1] != 0:
                        out.append(("violation", f"invariant {p} is not in the ideal reported by the other run ({nm})"))
    fs, hs = fresh.get("cli_sections"), hist.get("cli_sections")
    if fs is not None and hs is not None:
        a, b = fs[0] if fs else [], hs[goal_map if isinstance(goal_map, int) else -1] if hs else []
        la = [ln for ln in a if " = " in ln]
        lb = [ln for ln in b if " = " in ln]
        if len(la) != len(lb) or [ln.split(" = ")[0] for ln in la] != [ln.split(" = ")[0] for ln in lb]:
            out.append(("violation", f"printed results differ: {a} (fresh process) vs {b}"))
        else:
            for x, y in zip(la, lb):
                if x == y:
                    continue
                rx, ry = x.split(" = ", 1)[1], y.split(" = ", 1)[1]
                px, py = rx.split("; "), ry.split("; ")
                try:
                    ok = len(px) == len(py) and all(sp.simplify(sp.sympify(p) - sp.sympify(q)) == 0 for p, q in zip(px, py))
                except Exception:  # noqa
                    ok = False
                if not ok:
                    out.append(("violation", f"printed result differs: '{x}' (fresh process) vs '{y}'"))
    return out


POOL = ["s01_elif_overlap", "s02_reassign_cond_var", "s05_multi_assign", "s06_alias_reuse", "s09_locscale", "s11_simult", "s12_initblock", "s14_guard_two_vars", "s15_complex_eig",
        "t2", "t3", "t13"]


def main():
    run = Run("C20", "exploration")
    rnd = random.Random(f"c20-{run.seed}")
    corpus = {pid: (text, goals) for pid, text, goals in families.corpus() + families.corpus("corpus_func") + families.corpus("corpus_sym") + families.corpus("corpus_guard") + families.corpus("corpus_hist")}
    pool = [p for p in POOL if p in corpus]

    def step(pid, goals=None, **kw):
        t, g = corpus[pid]
        return {"kind": "goals", "text": t, "goals": (goals or g)[:3], **kw}
    plans = []   # (name, key, fresh history, fresh seed, history, seed, goal_map)
    targets = pool if not run.quick else pool[:7]
    for T in targets:
        fresh = [step(T)]
        plans.append((f"repeat/{T}", fresh, 0, [step(T), step(T)], 0, None))
        P1, P2 = rnd.choice(pool), rnd.choice(pool)
        plans.append((f"prefix/{P1}>{T}", fresh, 0, [step(P1), step(T)], 0, None))
        plans.append((f"prefix/{P1}>{P2}>{T}", fresh, 0, [step(P1), step(P2), step(T)], 0, None))
        for sd in ([1, 2, 3] if run.quick else list(range(1, 16))):
            plans.append((f"hashseed/{T}/{sd}", fresh, 0, fresh, sd, None))
        gl = corpus[T][1][:3]
        for perm in list(itertools.permutations(gl))[1:(3 if run.quick else 6)]:
            plans.append((f"goal-order/{T}/{'-'.join(perm)}", fresh, 0, [step(T, goals=list(perm))], 0, None))
    # twins: programs whose texts coincide except for the value of a named constant (memoisation keyed too coarsely shows here)
    twins = [("h01_cat_quarter", "h02_cat_three_quarters"), ("h02_cat_three_quarters", "h01_cat_quarter"), ("h03_gamma_shape2", "h04_gamma_shape3"),
             ("h01_cat_quarter", "h05_cat_symbolic"), ("h05_cat_symbolic", "h02_cat_three_quarters"), ("h04_gamma_shape3", "h03_gamma_shape2")]
    # polluters: conditional draws of a family (their support gets the default variable added), then a program that draws
    # from the same family / size -- shared mutable results of get_support show here
    twins += [("h08_cond_categorical2", "h01_cat_quarter"), ("h09_cond_categorical3", "h10_victim_categorical3"), ("h08_cond_categorical2", "h05_cat_symbolic"),
              ("h09_cond_categorical3", "s17_three_choice_self"), ("s10_cond_draw_default", "s09_locscale")]
    for A, B in twins:
        if A in corpus and B in corpus:
            plans.append((f"twin/{A}>{B}", [step(B)], 0, [step(A), step(B)], 0, None))
            plans.append((f"twin/{A}>{B}>{A}>{B}", [step(B)], 0, [step(A), step(B), step(A), step(B)], 0, None))
    ta, tb = corpus["h01_cat_quarter"][0], corpus["h02_cat_three_quarters"][0]
    plans.append(("cli/twin-benchmarks", [{"kind": "cli", "argv": ["b.prob", "--goals", "E(x)", "E(x**2)"], "files": {"a.prob": ta, "b.prob": tb}}], 0,
                  [{"kind": "cli", "argv": ["a.prob", "b.prob", "--goals", "E(x)", "E(x**2)"], "files": {"a.prob": ta, "b.prob": tb}}], 0, 1))
    # sensitivity recurrences (DiffRecBuilder shares the solver table between goals): goal order, repetition, prefixes
    for S in [p for p in corpus if p.startswith(("h06", "h07"))]:
        t, g = corpus[S]
        par = [ln[6:].strip() for ln in t.splitlines() if ln.startswith("#sens:")][0]
        fresh = [{"kind": "sens", "text": t, "goals": g[:3], "param": par}]
        for perm in list(itertools.permutations(g[:3]))[1:]:
            plans.append((f"sens-goal-order/{S}/{'-'.join(perm)}", fresh, 0, [{"kind": "sens", "text": t, "goals": list(perm), "param": par}], 0, None))
        plans.append((f"sens-repeat/{S}", fresh, 0, fresh + fresh, 0, None))
        plans.append((f"sens-prefix/{S}", fresh, 0, [step(S)] + fresh, 0, None))
        plans.append((f"sens-hashseed/{S}", fresh, 0, fresh, 7, None))
    # functional programs: exact mode flag is process-global class state
    for F in [p for p in corpus if p.startswith("f0")][: (2 if run.quick else 6)]:
        fresh = [step(F, opts={"exact_func_moments": True})]
        plans.append((f"func-flag/{F}", fresh, 0, [step(F, opts={"exact_func_moments": False}), step(F, opts={"exact_func_moments": True})], 0, None))
    # invariants after a prefix
    for T in ["t8", "s13_eig1_mult2", "s15_complex_eig"][: (2 if run.quick else 3)]:
        if T in corpus:
            t, g = corpus[T]
            inv = {"kind": "invariants", "text": t, "goals": g[:3]}
            plans.append((f"invariants/prefix>{T}", [inv], 0, [step(rnd.choice(pool)), inv], 0, None))
            plans.append((f"invariants/hashseed/{T}", [inv], 0, [inv], 5, None))
    # settings residue: an action that changes process-global settings, then an analysis through the API without resetting
    T = "s15_complex_eig"
    t, g = corpus[T]
    noreset = {"kind": "goals", "text": t, "goals": g[:2], "reset": False}
    plans.append((f"settings-residue/plot>{T}", [noreset], 0, [{"kind": "plot", "text": corpus["s13_eig1_mult2"][0], "monom": "x"}, noreset], 0, None))
    # the CLI over several benchmarks in one process
    a, b = corpus["s01_elif_overlap"][0], corpus["s13_eig1_mult2"][0]
    files = {"a.prob": a, "b.prob": b}
    plans.append(("cli/two-benchmarks/goals", [{"kind": "cli", "argv": ["b.prob", "--goals", "E(x)", "E(y)"], "files": files}], 0,
                  [{"kind": "cli", "argv": ["a.prob", "b.prob", "--goals", "E(x)", "E(y)"], "files": files}], 0, 1))
    plans.append(("cli/two-benchmarks/invariants-default-goals", [{"kind": "cli", "argv": ["b.prob", "--invariants"], "files": files}], 0,
                  [{"kind": "cli", "argv": ["a.prob", "b.prob", "--invariants"], "files": files}], 0, 1))
    if run.args.only:
        plans = [p for p in plans if run.args.only in p[0]]
    # run all distinct (history, seed) pairs
    distinct = {}
    for name, fh, fs, hh, hs, gm in plans:
        for h, s in ((fh, fs), (hh, hs)):
            distinct.setdefault(json.dumps([h, s], sort_keys=True), (h, s))
    keys = list(distinct)
    with ThreadPoolExecutor(max_workers=int(os.environ.get("VERIF_NPROC", 16))) as ex:
        recs = list(ex.map(lambda k: run_history(*distinct[k]), keys))
    recmap = dict(zip(keys, recs))
    nontrivial = 0
    for name, fh, fs, hh, hs, gm in plans:
        fresh = recmap[json.dumps([fh, fs], sort_keys=True)]
        hist = recmap[json.dumps([hh, hs], sort_keys=True)]
        diffs = compare(fresh, hist, run.stats, name, gm)
        nontrivial += 1 if (fresh.get("goals") or fresh.get("cli_sections") or fresh.get("invariants") is not None) else 0
        for kind, d in diffs:
            if kind == "violation":
                run.violation(f"history|{name.split('/')[0]}/{name.split('/')[1] if name.startswith(('cli', 'settings')) else ''}|{d.split(':')[0][:40]}" if name.startswith(("cli", "settings")) else f"history|{name}|{d.split(':')[0][:40]}",
                              f"{name}: {d}", {"history": hh, "seed": hs, "fresh": fh, "difference": d})
            else:
                run.inconc(f"{name}: {d}")
        if len(run.samples) < 6:
            run.sample({"history": name, "steps": [s.get("kind") + ":" + str(s.get("goals", s.get("argv", "")))[:60] for s in hh], "hash_seed": hs})
    # self-check of the comparator: a genuinely different closed form must be reported
    import sympy as sp
    n = sp.Symbol("n", integer=True)
    d = cf_equal(sp.srepr(2 ** n), sp.srepr(2 ** n + sp.Piecewise((0, n <= 1), (1, True))), None, "mutant")
    if not d:
        run.harness_error("comparator self-mutant: different closed forms reported equal")
    d2 = cf_equal(sp.srepr((n + 1) ** 2), sp.srepr(n ** 2 + 2 * n + 1), None, "mutant")
    if d2:
        run.harness_error("comparator self-check: equal closed forms reported different")
    run.functions = ["polar:main (several benchmarks in one process)", "cli.actions.goals_action:GoalsAction.parse_goals/handle_all_goals", "cli.common:get_moment (shared solver dict)",
                     "utils.identifiers:get_unique_var", "program.transformer:normalize_program (FunctionalAssignment.exact_func_moments)", "settings", "cli.actions.plot_action:PlotAction",
                     "invariants.invariant_ideal:InvariantIdeal"]
    run.bounds = {"histories": len(plans), "processes": len(keys), "shape": "repeat, prefixes of <= 2 other analyses, goal permutations, hash seeds, exact-mode flag flip, settings residue after PlotAction, two-benchmark CLI runs",
                  "comparison": "closed forms at n <= 4 by z3 for all parameter values; invariants by mutual ideal inclusion; types by value sets; error outcomes by type",
                  "outside": "longer histories; other seeds"}
    run.assumptions = ["the quantifier (process runs) is enumerated, not decided by the solver", "plot classes are stubbed when PlotAction is exercised (environment)"]
    run.finish(explanation="enumeration of process histories; the solver decides semantic equality of the results so that renamed symbols and reordered terms are not differences",
               evaluations=len(plans), distinct_nontrivial=nontrivial, rule="distinct (history, hash seed) plans whose fresh-process result contains at least one closed form / invariant / printed result",
               exhaustive=False)


if __name__ == "__main__":
    main()
