"""C04 -- solved closed forms reproduce A^n v for all n (bounded k plus an induction query per component)."""
import itertools
import random
import sys
import time
from fractions import Fraction
from vlib import polar_iface  # noqa
from vlib import smt, jobs
from vlib.findings import Run
from vlib.qpoly import QPoly
from vlib.lang import arith
from vlib.s2z import Tr, at_n, Untranslatable, N1, N2
from vlib import momentcheck as mc

# ---- the family: block matrices with rational (or parametric) entries, conjugated by unimodular integer matrices


def jordan(lam, size):
    return [[lam if i == j else ("1" if j == i + 1 else "0") for j in range(size)] for i in range(size)]


BLOCKS = {
    "J0x1": jordan("0", 1), "J0x2": jordan("0", 2), "J0x3": jordan("0", 3),
    "J1x1": jordan("1", 1), "J1x2": jordan("1", 2), "J1x3": jordan("1", 3),
    "Jm1x1": jordan("-1", 1), "Jm1x2": jordan("-1", 2),
    "J2x1": jordan("2", 1), "J2x2": jordan("2", 2),
    "Jhx1": jordan("1/2", 1), "Jhx2": jordan("1/2", 2), "Jmhx1": jordan("-1/2", 1),
    "J3x1": jordan("3", 1),
    "Jax1": jordan("a", 1), "Jax2": jordan("a", 2),
    "GOLD": [["0", "1"], ["1", "1"]],            # (1 +- sqrt5)/2
    "ROT": [["0", "-1"], ["1", "0"]],            # +- i
    "ONEI": [["1", "-1"], ["1", "1"]],           # 1 +- i
    "SQ2": [["0", "2"], ["1", "0"]],             # +- sqrt2
    "CUB": [["0", "0", "1"], ["1", "0", "1"], ["0", "1", "0"]],  # roots of t^3 - t - 1
    "CYC3": [["0", "0", "1"], ["1", "0", "0"], ["0", "1", "0"]],  # cube roots of unity
}
UNIMOD = {
    1: [[[1]]],
    2: [[[1, 0], [0, 1]], [[1, 1], [0, 1]], [[2, 1], [1, 1]], [[0, 1], [1, 0]]],
    3: [[[1, 0, 0], [0, 1, 0], [0, 0, 1]], [[1, 1, 0], [0, 1, 1], [0, 0, 1]], [[1, 0, 1], [1, 1, 0], [0, 0, 1]],
        [[0, 1, 0], [0, 0, 1], [1, 0, 0]]],
    4: [[[1, 0, 0, 0], [0, 1, 0, 0], [0, 0, 1, 0], [0, 0, 0, 1]], [[1, 1, 0, 0], [0, 1, 1, 0], [0, 0, 1, 1], [0, 0, 0, 1]],
        [[1, 0, 0, 1], [0, 1, 0, 0], [1, 0, 1, 0], [0, 0, 0, 1]], [[0, 0, 0, 1], [1, 0, 0, 0], [0, 1, 0, 0], [0, 0, 1, 0]]],
    5: [[[1 if i == j else 0 for j in range(5)] for i in range(5)],
        [[1 if (i == j or j == i + 1) else 0 for j in range(5)] for i in range(5)]],
}


def qmat(M):
    return [[arith(str(x)) for x in row] for row in M]


def mmul(A, B):
    return [[sum((A[i][k] * B[k][j] for k in range(len(B))), QPoly()) for j in range(len(B[0]))] for i in range(len(A))]


def int_inverse(P):
    import sympy as sp
    Pi = sp.Matrix(P).inv()
    return [[int(Pi[i, j]) for j in range(len(P))] for i in range(len(P))]


def direct_sum(blocks):
    d = sum(len(b) for b in blocks)
    M = [["0"] * d for _ in range(d)]
    o = 0
    for b in blocks:
        for i in range(len(b)):
            for j in range(len(b)):
                M[o + i][o + j] = b[i][j]
        o += len(b)
    return M


def systems(quick, seed, dmax):
    """-> list of (name, A (QPoly matrix), b (QPoly vector or None))"""
    names = sorted(BLOCKS)
    combos = []
    for r in (1, 2, 3):
        for c in itertools.combinations_with_replacement(names, r):
            d = sum(len(BLOCKS[x]) for x in c)
            if d <= dmax and sum(1 for x in c if x.startswith("Ja")) <= 1:
                combos.append(c)
    out = []
    for c in combos:
        B = direct_sum([BLOCKS[x] for x in c])
        d = len(B)
        for pi, P in enumerate(UNIMOD[d]):
            for inhom in (False, True):
                out.append(("+".join(c) + f"/P{pi}" + ("/inh" if inhom else ""), B, P, inhom))
    rnd = random.Random(f"c04-{seed}")
    if quick:
        # stratified: every block combination once (random conjugation / inhomogeneity), capped
        byc = {}
        for s in out:
            byc.setdefault(s[0].split("/")[0], []).append(s)
        keys = sorted(byc)
        rnd.shuffle(keys)
        sel = [rnd.choice(byc[k]) for k in keys[:70]]
        # always: the mechanisms of DESIGN 2.7
        must = ["J0x2+J1x1/P1/inh", "J0x3/P1", "J0x2+J2x1/P2", "J1x2+J0x1/P1/inh", "GOLD+J0x1/P1", "J0x1+J0x1+J2x1/P1", "J0x2+Jhx1/P0/inh",
                "J0x1+J1x1/P1/inh", "J0x1+J2x1/P0"]
        names_sel = {s[0] for s in sel}
        sel += [s for s in out if s[0] in must and s[0] not in names_sel]
        out = sel
    else:
        # thorough: every block combination with two of its (conjugation, inhomogeneity) variants -- about 1 400 systems,
        # sized to roughly 20 minutes on 16 cores (the full product is 5 786 systems)
        byc = {}
        for s in out:
            byc.setdefault(s[0].split("/")[0], []).append(s)
        out = [s for k in sorted(byc) for s in rnd.sample(byc[k], min(2, len(byc[k])))]
    res = []
    # second family: sparse triangular matrices (acyclic systems with delayed copies feeding accumulators, several levels)
    diag = ["0", "0", "1", "1", "2", "1/2", "-1", "3"]
    off = ["0", "0", "0", "1", "-1", "2", "1/2"]
    ntri = 30 if quick else 400
    for t in range(ntri):
        d = rnd.choice([3, 4, 4, 5] if not quick else [3, 4, 4, 5])
        lower = rnd.random() < 0.5
        M = [["0"] * d for _ in range(d)]
        for i in range(d):
            M[i][i] = rnd.choice(diag)
            for j in range(d):
                if (j < i if lower else j > i):
                    M[i][j] = rnd.choice(off)
        b = [QPoly.const(rnd.choice([0, 0, 1, -1, 2])) for _ in range(d)] if rnd.random() < 0.5 else None
        res.append((f"tri{t}/d{d}", qmat(M), b))
    # third family: L delayed copies (zero diagonal) feeding a tower of A accumulators (non-zero diagonal) -- the shape behind
    # the validity-shift mechanism of the acyclic solver (every level inherits the transient of the level below)
    for L in (1, 2, 3):
        for Acc in (1, 2, 3):
            for dg in (["1", "1", "1"], ["2", "1", "1/2"]):
                d = L + Acc + 1
                M = [["0"] * d for _ in range(d)]
                M[0][0] = "2"                      # source x' = 2x
                for i in range(1, L + 1):
                    M[i][i - 1] = "1"              # delay_i' = previous level
                for a in range(Acc):
                    i = L + 1 + a
                    M[i][i] = dg[a]
                    M[i][i - 1] = "1"
                res.append((f"tower/L{L}A{Acc}/{'-'.join(dg[:Acc])}", qmat(M), None))
    for name, B, P, inhom in out:
        Pq, Piq = qmat(P), qmat(int_inverse(P))
        A = mmul(mmul(Pq, qmat(B)), Piq)
        b = [QPoly.const((i % 3) - 1) if i != 0 else QPoly.const(2) for i in range(len(A))] if inhom else None
        res.append((name, A, b))
    return res


def concrete_systems(quick, seed):
    """fourth family: CONCRETE initial vectors.  With symbolic initial values a transient value never coincides with the
    eventual value, so everything that compares beginning values with the general solution (validity points of the
    acyclic solver, number of beginning values of the cyclic solver) takes one path only; small concrete vectors with
    repeated entries and zeros reach the other paths.  Shapes: a source that dies or becomes constant, L delayed copies,
    accumulators on top.  -> list of (name, A, b, init)"""
    rnd = random.Random(f"c04-concrete-{seed}")
    res = []
    shapes = []
    for L in (1, 2, 3):
        for Acc in (0, 1, 2):
            for src, b0 in (("0", 0), ("0", 1), ("1", 0), ("1/2", 0)):
                d = L + Acc + 1
                M = [["0"] * d for _ in range(d)]
                M[0][0] = src
                for i in range(1, L + 1):
                    M[i][i - 1] = "1"
                for a in range(Acc):
                    i = L + 1 + a
                    M[i][i] = "1"
                    M[i][i - 1] = "1"
                b = [QPoly.const(b0)] + [QPoly.const(0)] * (d - 1) if b0 else None
                shapes.append((f"chain/L{L}A{Acc}/src{src}+{b0}", qmat(M), b))
    vals = [0, 0, 1, 1, 5, -1, 2]
    per = 2 if quick else 12
    for name, A, b in shapes:
        d = len(A)
        seen = set()
        for t in range(per):
            v = tuple(rnd.choice(vals) for _ in range(d))
            if v in seen:
                continue
            seen.add(v)
            res.append((f"{name}/v={','.join(map(str, v))}", A, b, [Fraction(x) for x in v]))
    # the coincidence patterns themselves: an early transient value equals the eventual value, a later one does not
    must = [("chain/L2A1/src0+0", (1, 0, 5, 0)), ("chain/L2A1/src0+0", (5, 0, 0, 1)), ("chain/L3A1/src0+0", (2, 0, 0, 7, 0)), ("chain/L2A0/src0+1", (0, 1, 1)),
            ("chain/L2A1/src0+1", (0, 1, 3, 0)), ("chain/L3A0/src1+0", (1, 1, 0, 1)), ("chain/L2A2/src0+0", (1, 0, 5, 0, 0))]
    byname = {s[0]: s for s in shapes}
    for nm, v in must:
        _, A, b = byname[nm]
        res.append((f"{nm}/v={','.join(map(str, v))}", A, b, [Fraction(x) for x in v]))
    return res


NUMERIC_EXTRA = [("GOLD", "J1x2"), ("SQ2", "Jhx2"), ("GOLD", "GOLD", "J1x1"), ("GOLD", "GOLD"), ("CUB", "J2x2"), ("SQ2", "SQ2", "J2x1"), ("J1x2", "GOLD", "J0x1")]


def numeric_extra():
    """systems whose characteristic polynomial has several square-free factors of different multiplicity, rational and
    irrational roots distributed over them in every order (the exactness flag has to be accumulated over all factors)"""
    res = []
    for c in NUMERIC_EXTRA:
        B = direct_sum([BLOCKS[x] for x in c])
        d = len(B)
        for pi, P in enumerate(UNIMOD[d][:2]):
            Pq, Piq = qmat(P), qmat(int_inverse(P))
            res.append(("numx/" + "+".join(c) + f"/P{pi}", mmul(mmul(Pq, qmat(B)), Piq), None))
    return res


# ---- the job

def q2sym(q, sp):
    """QPoly -> sympy (only plain symbols occur here)"""
    e = sp.Integer(0)
    for k, v in q.t.items():
        t = sp.Rational(v.numerator, v.denominator)
        for s, p in k:
            t = t * sp.Symbol(s) ** p
        e += t
    return e


from vlib.expo import pow_hook_factory  # noqa: E402


def job(item):
    import sympy as sp
    import z3
    from recurrences import Recurrences
    from recurrences.solver.acyclic_solver import AcyclicSolver
    from recurrences.solver.cyclic_solver import CyclicSolver
    name, A, b, K, which = item["name"], item["A"], item["b"], item["K"], item["which"]
    d = len(A)
    out = {"name": name, "records": [], "stats": smt.new_stats(), "refusals": [], "checked": 0, "induction": 0, "flags": {}}
    ms = [sp.Symbol(f"m{i}") for i in range(d)]
    vs = [sp.Symbol(f"v{i}") for i in range(d)]
    rec = {}
    for i in range(d):
        e = sp.Integer(0)
        for j in range(d):
            e += q2sym(A[i][j], sp) * ms[j]
        if b is not None:
            e += q2sym(b[i], sp)
        rec[ms[i]] = sp.expand(e)
    v0 = item.get("init")
    init = {ms[i]: (vs[i] if v0 is None else sp.Rational(v0[i].numerator, v0[i].denominator)) for i in range(d)}
    consts = vs + [sp.Symbol("a")]
    # exact A^k v
    vec = [QPoly.var(f"v{i}") if v0 is None else QPoly.const(v0[i]) for i in range(d)]
    seq = [vec]
    for _ in range(K):
        vec = [sum((A[i][j] * vec[j] for j in range(d)), QPoly()) + (b[i] if b is not None else 0) for i in range(d)]
        seq.append(vec)
    zsym = {}

    def zv(nm):
        if nm not in zsym:
            zsym[nm] = z3.Real(nm)
        return zsym[nm]

    try:
        polar_iface.set_settings(**item.get("opts", {}))
        with polar_iface.time_limit(item.get("timeout", 90)):
            R = Recurrences(rec, init, None, consts)
            solvers = []
            if which in ("both", "acyclic") and R.is_acyclic:
                solvers.append(("acyclic", AcyclicSolver(R)))
            if which in ("both", "cyclic"):
                solvers.append(("cyclic", CyclicSolver(R)))
    except polar_iface.JobTimeout:
        out["refusals"].append({"id": name, "type": "Timeout", "msg": "solver construction", "where": ""})
        return out
    except Exception as e:
        out["refusals"].append({"id": name, **polar_iface.exc_info(e)})
        return out
    for sname, S in solvers:
        for i in range(d):
            tag0 = f"{name}:{sname}:m{i}"
            try:
                with polar_iface.time_limit(item.get("timeout", 90)):
                    cf = sp.sympify(S.get(ms[i]))
                    exact = bool(S.is_exact)
            except polar_iface.JobTimeout:
                out["refusals"].append({"id": tag0, "type": "Timeout", "msg": "get", "where": ""})
                continue
            except Exception as e:
                out["refusals"].append({"id": tag0, **polar_iface.exc_info(e)})
                continue
            out["flags"][tag0] = exact
            bad = False
            # Q1: bounded
            for k in range(K + 1):
                tag = f"{tag0}:n={k}"
                try:
                    ek = at_n(cf, k)
                    t = Tr(sym=zv)
                    re, im = t.tr(ek)
                except (Untranslatable, NotImplementedError, Exception) as e:  # noqa
                    out["records"].append({"kind": "inconclusive", "tag": tag, "why": f"translation: {type(e).__name__} {e}"[:160]})
                    continue
                oz = seq[k][i].to_z3(zv)
                neq = re != oz if im is None else z3.Or(re != oz, im != 0)
                verdict, model = smt.decide(t.constraints() + [neq], out["stats"], item.get("q_timeout", 30000), tag=tag,
                                            xcheck=item.get("xcheck", False) and k == 2)
                out["checked"] += 1
                if k == 1 and i == 0:
                    # vacuity guard: a deliberately wrong reference (off by one) must be refuted by the same encoding
                    mv, _ = smt.decide(t.constraints() + [re != oz + 1], None, 20000)
                    out["mutants"] = out.get("mutants", 0) + 1
                    if mv != "sat":
                        out["records"].append({"kind": "harness", "tag": tag, "why": f"self-mutant (reference + 1) not satisfiable: {mv}"})
                if verdict == "unknown":
                    out["records"].append({"kind": "inconclusive", "tag": tag, "why": "solver unknown/timeout"})
                elif verdict == "sat":
                    vals = mc.sym_values(model, [f"v{j}" for j in range(d)] + ["a"])
                    try:
                        pv = mc.eval_sympy_exact(ek, vals)
                        ov = seq[k][i].evalq(vals)
                        rep = mc.values_differ(pv, ov)
                    except Exception as e:  # noqa
                        out["records"].append({"kind": "inconclusive", "tag": tag, "why": f"replay failed {e}"[:160]})
                        continue
                    if rep:
                        out["records"].append({"kind": "violation", "key": f"{name}|{sname}|m{i}", "tag": tag,
                                               "what": f"{sname} solver, component {i} at n={k}: closed form gives {pv}, A^n v gives {ov} at {dict((a, str(b_)) for a, b_ in vals.items()) if v0 is None else 'v = ' + str([str(x) for x in v0])}; flagged exact={exact}; closed form {str(cf)[:160]}",
                                               "replay": {"system": name, "matrix": [[repr(x) for x in row] for row in A], "inhom": [repr(x) for x in b] if b else None,
                                                          "solver": sname, "component": i, "n": k, "values": {a: str(b_) for a, b_ in vals.items()},
                                                          "polar": str(pv), "exact": str(ov)}})
                        bad = True
                        break
                    out["records"].append({"kind": "harness", "tag": tag, "why": "model did not replay"})
            if bad:
                continue
            # Q2: induction F(n+1) = (A F(n) + b)_i  on the general branch, b^n abstracted
            try:
                gen = [sp.sympify(S.get(ms[j])) for j in range(d)]
                n0 = 0
                gens = []
                for g in gen:
                    if isinstance(g, sp.Piecewise):
                        for ex, cond in g.args:
                            if isinstance(cond, sp.LessThan) or (hasattr(cond, "args") and cond != True and cond is not sp.true):  # noqa
                                for lt in cond.atoms(sp.LessThan):
                                    n0 = max(n0, int(lt.args[1]) + 1)
                        gens.append(g.args[-1][0])
                    else:
                        gens.append(g)
                if n0 > K:
                    out["records"].append({"kind": "inconclusive", "tag": tag0, "why": f"induction base n0={n0} beyond K={K}"})
                    continue
                reg = {}
                t = Tr(sym=zv, pow_n=pow_hook_factory(reg))
                nsym = z3.Real("n")
                zsym["n"] = nsym
                lhs = t.tr(gens[i].xreplace({N1: N1 + 1}).xreplace({N2: N2 + 1}))
                rhs_re, rhs_im = None, None
                for j in range(d):
                    if A[i][j].is_zero():
                        continue
                    fr, fi = t.tr(gens[j])
                    c = A[i][j].to_z3(zv)
                    rhs_re = c * fr if rhs_re is None else rhs_re + c * fr
                    if fi is not None:
                        rhs_im = c * fi if rhs_im is None else rhs_im + c * fi
                if rhs_re is None:
                    rhs_re = z3.RealVal(0)
                if b is not None:
                    rhs_re = rhs_re + b[i].to_z3(zv)
                li = lhs[1] if lhs[1] is not None else z3.RealVal(0)
                ri = rhs_im if rhs_im is not None else z3.RealVal(0)
                neq = z3.Or(lhs[0] != rhs_re, li != ri)
                verdict, model = smt.decide(t.constraints() + [neq], out["stats"], item.get("q_timeout", 30000), tag=tag0 + ":induction")
                if verdict == "unsat":
                    out["induction"] += 1
                else:
                    out["records"].append({"kind": "inconclusive", "tag": tag0 + ":induction",
                                           "why": f"induction query {verdict} (bounded result stands; a sat here is only meaningful after a concrete n confirms it)"})
            except (Untranslatable, NotImplementedError) as e:
                out["records"].append({"kind": "inconclusive", "tag": tag0 + ":induction", "why": f"translation: {e}"[:160]})
            except Exception as e:  # noqa
                out["records"].append({"kind": "inconclusive", "tag": tag0 + ":induction", "why": f"{type(e).__name__}: {e}"[:160]})
    return out


def numeric_job(item):
    """Q4: numeric root options -- exactness flag and envelope, concrete initial vector"""
    import sympy as sp
    from recurrences import Recurrences
    from recurrences.solver.cyclic_solver import CyclicSolver
    name, A, b, K = item["name"], item["A"], item["b"], item["K"]
    d = len(A)
    out = {"name": name, "records": [], "stats": smt.new_stats(), "refusals": [], "checked": 0, "induction": 0, "flags": {}}
    ms = [sp.Symbol(f"m{i}") for i in range(d)]
    rec = {}
    for i in range(d):
        e = sp.Integer(0)
        for j in range(d):
            e += q2sym(A[i][j], sp) * ms[j]
        if b is not None:
            e += q2sym(b[i], sp)
        rec[ms[i]] = sp.expand(e)
    init = {ms[i]: sp.Integer(i + 1) for i in range(d)}
    vec = [Fraction(i + 1) for i in range(d)]
    seq = [vec]
    for _ in range(K):
        vec = [sum((A[i][j].cval() * vec[j] for j in range(d)), Fraction(0)) + (b[i].cval() if b is not None else 0) for i in range(d)]
        seq.append(vec)
    # what the root precision allows: an error of order eps in a root or in a fitted coefficient is multiplied by rho^n
    # (rho = spectral radius; the exact solution may not contain the dominant root at all, the rounded one does)
    try:
        rho = max([1.0] + [abs(complex(ev)) for ev in sp.Matrix([[q2sym(x, sp) for x in row] for row in A]).eigenvals(multiple=True)])
    except Exception:  # noqa
        rho = max(1.0, max(sum(abs(float(x.cval())) for x in row) for row in A))
    for mode in ({"numeric_roots": True}, {"numeric_croots": True}):
        try:
            with polar_iface.time_limit(60):
                R = Recurrences(rec, init, None, [])
                S = CyclicSolver(R, mode.get("numeric_roots", False), mode.get("numeric_croots", False), 1e-10)
                for i in range(d):
                    cf = sp.sympify(S.get(ms[i]))
                    exact = bool(S.is_exact)
                    for k in range(K + 1):
                        v = sp.N(at_n(cf, k), 40)
                        v = sp.re(v)
                        ex = seq[k][i]
                        diff = abs(float(v) - float(ex))
                        out["checked"] += 1
                        tag = f"{name}:{list(mode)[0]}:m{i}:n={k}"
                        if exact and diff > 1e-25 * (1 + abs(float(ex))):
                            out["records"].append({"kind": "violation", "key": f"{name}|{list(mode)[0]}|m{i}", "tag": tag,
                                                   "what": f"result flagged exact but differs: {v} vs {ex}", "replay": {"system": name, "mode": mode, "n": k}})
                            break
                        if diff > (1e-9 + 1e2 * 1e-10 * rho ** k) * (1 + abs(float(ex))):
                            out["records"].append({"kind": "violation", "key": f"{name}|{list(mode)[0]}|m{i}|envelope", "tag": tag,
                                                   "what": f"rounded result deviates beyond the envelope 100 * eps * rho^n: {v} vs {ex} at n={k} (eps=1e-10, rho={rho:.3g})", "replay": {"system": name, "mode": mode, "n": k}})
                            break
        except polar_iface.JobTimeout:
            out["refusals"].append({"id": name, "type": "Timeout", "msg": str(mode), "where": ""})
        except Exception as e:
            out["refusals"].append({"id": name + str(mode), **polar_iface.exc_info(e)})
    return out


def main():
    run = Run("C04", "other")
    dmax = 3 if run.quick else 4
    syss = systems(run.quick, run.seed, dmax)
    items = []
    for i, (name, A, b) in enumerate(syss):
        K = 2 * len(A) + 4
        items.append({"name": name, "A": A, "b": b, "K": K, "which": "both", "xcheck": i % 12 == 0})
    for name, A, b, v0 in concrete_systems(run.quick, run.seed):
        items.append({"name": name, "A": A, "b": b, "K": 2 * len(A) + 4, "which": "both", "xcheck": False, "init": v0})
    if run.args.only:
        items = [i for i in items if run.args.only in i["name"]]
    results = jobs.run_jobs(job, items, timeout=400)
    run.notes.append({"slowest_jobs": jobs.slowest(items, lambda it: it["name"])})
    num_items = [it for it in items if not it.get("init") and not any("a" in x.symbols() for row in it["A"] for x in row)][:: (4 if run.quick else 2)]
    num_items += [{"name": name, "A": A, "b": b, "K": 2 * len(A) + 4} for name, A, b in numeric_extra() if not run.args.only or run.args.only in name]
    results2 = jobs.run_jobs(numeric_job, num_items, timeout=200)
    nsys = checked = ind = muts = 0
    for it, (st, val) in list(zip(items, results)) + list(zip(num_items, results2)):
        if st != "ok":
            run.job_failed(it['name'], st, val)
            continue
        run.add_stats(val["stats"])
        for r in val["refusals"]:
            run.refusal(r)
        nsys += 1 if val["checked"] else 0
        checked += val["checked"]
        ind += val["induction"]
        muts += val.get("mutants", 0)
        for r in val["records"]:
            if r["kind"] == "violation":
                run.violation(r["key"], r["what"], r["replay"])
            elif r["kind"] == "harness":
                run.harness_error(f"{r['tag']}: {r['why']}")
            else:
                run.inconc(f"{r['tag']}: {r['why']}")
        if val["checked"] and len(run.samples) < 5:
            run.sample({"system": it["name"], "matrix": [[repr(x) for x in row] for row in it["A"]], "queries": val["checked"], "induction_closed": val["induction"]})
    run.functions = ["recurrences.recurrences:Recurrences.__init__/_init_data/_init_is_acyclic", "recurrences.solver.acyclic_solver:AcyclicSolver.get",
                     "recurrences.solver.cyclic_solver:CyclicSolver.get/_solve_for_unknowns/_add_beginning_values", "utils.expressions:get_all_roots/numerify_croots"]
    run.bounds = {"dimension_max": dmax, "k_max": "2d+4", "family": "direct sums of the blocks in checks/c04.py:BLOCKS conjugated by unimodular integer matrices, with/without constant inhomogeneous part",
                  "initial_vector": "fully symbolic (v0..vd-1); plus the chain family with small concrete vectors (checks/c04.py:concrete_systems)", "induction": "general branch, b^n as fresh symbols, n symbolic real: closes all n >= n0",
                  "outside": "dimension > dmax, eigenvalues outside the block list"}
    run.assumptions = ["denominators of the reported closed form non-zero", "numeric-root envelope (Q4) is evaluated at a concrete initial vector in exact arithmetic (not a solver verdict)"]
    run.finish(explanation="bounded solver-based checking: per (system, solver, component, k<=2d+4) one z3 query closed(k) != (A^k v) over all initial vectors (and parameter a), plus one induction query per component",
               evaluations=checked, distinct_nontrivial=nsys, systems=nsys, induction_closed=ind, self_mutants_refuted=muts,
               rule="systems = distinct block combinations x conjugations x inhomogeneity; non-trivial = at least one query was discharged for it")


if __name__ == "__main__":
    main()
