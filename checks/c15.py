"""C15 -- Bayesian-network import and queries.

(Q1/Q2) CPT assembly: the real NetworkTransformer.__add_cpt__ (default / table / entries, each optional) is executed path
by path on symbolic probabilities (floats modelled as reals) and every path is closed against a 20-line overlay
specification: accepted <=> every row complete and |1 - sum| < tol; stored table = default, then table (own value slowest,
parents in product order), then entries.  (Q3) the generated loop draws the network's joint law: CPT entries are symbols,
the real CodeGenerator prints the program, the harness's own reader executes one iteration and every joint valuation's
probability is compared with the product of CPT entries.  (Q4/Q5) exact inference and sampling time through the real
query classes and the real analysis, against enumeration of the joint law, for all CPT values in (0,1).
Lark parsing of BIF text is validated concretely only (three notations written as text)."""
import itertools
import os
import random
import sys
import tempfile
from fractions import Fraction
from vlib import polar_iface  # noqa
from vlib import smt, jobs
from vlib.findings import Run
from vlib import pathfork as pf
from vlib.qpoly import QPoly
from vlib.lang import parse_text
from vlib.sem import Interp, Unsupported

TOL = 0.001


# --------------------------------------------------------------------------- Q1 CPT assembly (pathfork)

def job_cpt(item):
    import z3
    from bayesnet.transformer import NetworkTransformer, AttributeType
    from bayesnet.bayes_network import BayesNetwork
    from bayesnet.bayes_variable import BayesVariable
    from bayesnet.exceptions import BifFormatException
    pdoms, cdom, present = item["pdoms"], item["cdom"], item["present"]
    name = f"cpt/parents={pdoms}/child={cdom}/{present}"
    out = {"name": name, "records": [], "stats": smt.new_stats(), "paths": 0, "checked": 0, "mutants": 0}
    rows = list(itertools.product(*[[f"v{j}_{i}" for i in range(n)] for j, n in enumerate(pdoms)]))
    nrows = len(rows)
    tol = z3.RealVal(str(Fraction(repr(TOL))))
    zvars = []

    def fresh(nm):
        v = z3.Real(nm)
        zvars.append(v)
        return v
    zdefault = [fresh(f"d{i}") for i in range(cdom)]
    ztable = [fresh(f"t{k}") for k in range(cdom * nrows)]
    entry_rows = [r for r, on in zip(rows, present["entries"]) if on]
    zentries = {r: [fresh(f"e{rows.index(r)}_{i}") for i in range(cdom)] for r in entry_rows}
    assume = [z3.And(v >= 0, v <= 1) for v in zvars]

    def ok(row):
        s = sum(row, z3.RealVal(0))
        d = 1 - s
        return z3.If(d >= 0, d, -d) < tol
    # overlay specification
    valid = z3.BoolVal(True)
    exp = {r: None for r in rows}
    if present["default"]:
        valid = z3.And(valid, ok(zdefault))
        for r in rows:
            exp[r] = list(zdefault)
    if present["table"]:
        for ri, r in enumerate(rows):
            row = [ztable[ri + i * nrows] for i in range(cdom)]
            valid = z3.And(valid, ok(row))
            exp[r] = row
    for r in entry_rows:
        valid = z3.And(valid, ok(zentries[r]))
        exp[r] = list(zentries[r])
    complete = all(exp[r] is not None for r in rows)
    spec_accept = z3.And(valid, z3.BoolVal(complete))

    def fn():
        tr = NetworkTransformer(TOL)
        net = BayesNetwork("n", [], TOL)
        tr.network = net
        parents = []
        for j, n in enumerate(pdoms):
            p = BayesVariable(f"P{j}", tuple(f"v{j}_{i}" for i in range(n)), [])
            p.network = net
            p.parents = ()
            net.add_variable(p)
            parents.append(p)
        ch = BayesVariable("C", tuple(f"c{i}" for i in range(cdom)), [])
        ch.network = net
        net.add_variable(ch)
        entries = []
        if present["default"]:
            entries.append((AttributeType.DEFAULT, tuple(pf.SV(v) for v in zdefault)))
        if present["table"]:
            entries.append((AttributeType.TABLE, tuple(pf.SV(v) for v in ztable)))
        for r in entry_rows:
            entries.append((AttributeType.ENTRY, (tuple(r), tuple(pf.SV(v) for v in zentries[r]))))
        try:
            tr.__add_cpt__(net, ("C", [p.name for p in parents], entries))
        except BifFormatException as e:
            return ("rejected", str(e))
        return ("accepted", ch.cpt)

    for ctx, res in pf.explore(fn, assume):
        out["paths"] += 1
        if isinstance(res, Exception):
            out["records"].append({"kind": "violation", "key": f"{name}|raises|{type(res).__name__}", "tag": name,
                                   "what": f"__add_cpt__ raises {type(res).__name__}: {res} instead of accepting or rejecting with BifFormatException ({name})",
                                   "replay": {"scenario": name}})
            continue
        status, payload = res
        if status == "accepted":
            prop = [spec_accept]
            if complete:
                for r in rows:
                    got = payload.get(tuple(r))
                    if got is None or len(got) != cdom:
                        prop.append(z3.BoolVal(False))
                        continue
                    for g, w in zip(got, exp[r]):
                        gt = g.t if isinstance(g, pf.SV) else z3.RealVal(str(Fraction(repr(float(g))))) if g == g else None
                        prop.append(gt == w if gt is not None else z3.BoolVal(False))
            prop = z3.And(*prop)
        else:
            prop = z3.Not(spec_accept)
        v, model = smt.decide(assume + ctx.pc + [z3.Not(prop)], out["stats"], 20000, tag=f"{name}:{status}", keep_sample=(out["checked"] < 2))
        out["checked"] += 1
        if out["mutants"] == 0 and status == "accepted" and complete and present["table"] and nrows > 1 and not entry_rows:
            # self-mutant: a reference reading the table row-major instead of column-major must be refuted
            wrong = []
            for ri, r in enumerate(rows):
                for i, g in enumerate(payload[tuple(r)]):
                    wrong.append(g.t == ztable[ri * cdom + i])
            mv, _ = smt.decide(assume + ctx.pc + [z3.Not(z3.And(*wrong))], None, 10000)
            out["mutants"] += 1
            if mv != "sat":
                out["records"].append({"kind": "harness", "tag": name, "why": "self-mutant (table read in the wrong order) not refuted"})
        if v == "sat":
            vals = {str(z): Fraction(model.get(str(z), 0)) for z in zvars}
            out["records"].append({"kind": "cex", "status": status, "vals": vals})
        elif v != "unsat":
            out["records"].append({"kind": "inconclusive", "tag": name, "why": "solver unknown"})
    # replay counterexamples with concrete floats on the real code
    final = []
    for r in out["records"]:
        if r["kind"] != "cex":
            final.append(r)
            continue
        vals = r["vals"]

        def fl(v):
            return float(vals[str(v)])
        tr = NetworkTransformer(TOL)
        net = BayesNetwork("n", [], TOL)
        tr.network = net
        parents = []
        for j, n in enumerate(pdoms):
            p = BayesVariable(f"P{j}", tuple(f"v{j}_{i}" for i in range(n)), [])
            p.network = net
            p.parents = ()
            net.add_variable(p)
            parents.append(p)
        ch = BayesVariable("C", tuple(f"c{i}" for i in range(cdom)), [])
        ch.network = net
        net.add_variable(ch)
        entries = []
        if present["default"]:
            entries.append((AttributeType.DEFAULT, tuple(fl(v) for v in zdefault)))
        if present["table"]:
            entries.append((AttributeType.TABLE, tuple(fl(v) for v in ztable)))
        for rr in entry_rows:
            entries.append((AttributeType.ENTRY, (tuple(rr), tuple(fl(v) for v in zentries[rr]))))
        try:
            tr.__add_cpt__(net, ("C", [p.name for p in parents], entries))
            acc, table = True, dict(ch.cpt)
        except BifFormatException:
            acc, table = False, None
        except Exception as e:  # noqa
            acc, table = None, str(e)

        def okc(row):
            return abs(1 - sum(Fraction(x) for x in row)) < Fraction(repr(TOL))
        vexp = {}
        val = True
        if present["default"]:
            val = val and okc([vals[str(v)] for v in zdefault])
            for rr in rows:
                vexp[rr] = tuple(fl(v) for v in zdefault)
        if present["table"]:
            for ri, rr in enumerate(rows):
                row = [ztable[ri + i * nrows] for i in range(cdom)]
                val = val and okc([vals[str(v)] for v in row])
                vexp[rr] = tuple(fl(v) for v in row)
        for rr in entry_rows:
            val = val and okc([vals[str(v)] for v in zentries[rr]])
            vexp[rr] = tuple(fl(v) for v in zentries[rr])
        want_acc = val and complete
        differs = (acc != want_acc) or (acc and table != {tuple(k): v for k, v in vexp.items()})
        # floats are modelled as reals: a replay that differs only because float summation rounds at the tolerance edge is not a finding
        if differs:
            final.append({"kind": "violation", "key": f"{name}|{r['status']}", "tag": name,
                          "what": f"__add_cpt__ ({name}) {'accepts' if acc else 'rejects'} values {dict((k, str(v)) for k, v in vals.items())}; specification says {'accept' if want_acc else 'reject'}"
                                  + (f", stored table {table} vs {vexp}" if acc and want_acc else ""),
                          "replay": {"scenario": name, "values": {k: str(v) for k, v in vals.items()}, "accepted": acc, "expected_accept": want_acc}})
        else:
            final.append({"kind": "inconclusive", "tag": name, "why": "real-arithmetic counterexample does not replay with floats (rounding at the tolerance edge)"})
    out["records"] = final
    return out


# --------------------------------------------------------------------------- symbolic networks

NUMERIC_ROWS = {2: [("1/3",), ("3/5",), ("1/7",), ("2/9",), ("5/11",), ("4/13",), ("1/2",), ("6/17",)],
                3: [("1/5", "1/3"), ("2/7", "3/7"), ("1/4", "1/2"), ("3/11", "2/11"), ("1/6", "1/3"), ("2/5", "1/5")]}


def make_network(shape, sp, names=None, numeric=False):
    """shape: list of (name, domain size, parent indices).  CPT rows: symbols with the last entry 1 - sum."""
    from bayesnet.bayes_network import BayesNetwork
    from bayesnet.bayes_variable import BayesVariable
    net = BayesNetwork("net", [], TOL)
    net.cpt_entry_sum_valid = lambda probs: True   # symbolic rows: the acceptance logic is Q1's subject
    vs = []
    syms = []
    for idx, (nm, size, parents) in enumerate(shape):
        v = BayesVariable(nm, tuple(f"val{i}" for i in range(size)), [])
        v.network = net
        net.add_variable(v)
        vs.append(v)
    for idx, (nm, size, parents) in enumerate(shape):
        v = vs[idx]
        v.parents = tuple(vs[p] for p in parents)
        v.cpt = {}
        for comb in itertools.product(*[p.domain for p in v.parents]):
            tagc = "_".join(c[3:] for c in comb)
            if numeric:
                pool = NUMERIC_ROWS[size]
                row = [sp.Rational(x) for x in pool[(len(v.cpt) + 3 * idx) % len(pool)]]
            else:
                row = [sp.Symbol(f"q{idx}_{tagc}_{i}") for i in range(size - 1)]
                syms += row
            v.cpt[comb] = tuple(row + [1 - sum(row)])
    return net, vs, syms


def joint(shape, vs, sp):
    """own enumeration of the joint law: {valuation tuple: probability (sympy)}"""
    out = {}
    for val in itertools.product(*[range(s) for _, s, _ in shape]):
        p = sp.Integer(1)
        for idx, (nm, size, parents) in enumerate(shape):
            comb = tuple(f"val{val[pi]}" for pi in parents)
            p = p * vs[idx].cpt[comb][val[idx]]
        out[val] = sp.expand(p)
    return out


SHAPES = [
    [("A", 2, []), ("B", 2, [0])],
    [("A", 2, []), ("B", 3, [0])],
    [("A", 3, []), ("B", 2, [0])],
    [("Rain", 2, []), ("Sprinkler", 2, [0]), ("Wet", 2, [0, 1])],
    [("A", 2, []), ("B", 2, []), ("C", 2, [0, 1])],
    [("A", 2, []), ("B", 2, [0]), ("C", 2, [1])],
    [("X-1", 2, []), ("x_1", 2, [0])],                       # names needing sanitising
    [("Rain-1", 2, []), ("Rain1", 2, [0]), ("Wet", 2, [0, 1])],   # names that coincide after sanitising, the altered one declared first
    [("rain1", 2, []), ("Rain-1", 2, [0])],                   # ... the clean one declared first
    [("A", 2, []), ("a", 2, [0]), ("a1", 2, [1])],            # case folding collides; the suffixed name is taken as well
    [("A", 2, []), ("B", 3, [0]), ("C", 2, [1]), ("D", 2, [0, 2])],
    [("C", 2, [1]), ("A", 2, []), ("B", 2, [0, 1])],          # declaration order differs from topological order
]


def sym2q(e, sp):
    from vlib.lang import expr2q
    return expr2q(sp.expand(e))


def job_joint(item):
    """Q3: one iteration of the generated loop has the joint law of the network"""
    import sympy as sp
    import z3
    from bayesnet.code_generator import CodeGenerator
    shape = item
    name = "joint/" + "-".join(f"{n}{s}{p}" for n, s, p in shape)
    out = {"name": name, "records": [], "stats": smt.new_stats(), "paths": 0, "checked": 0, "mutants": 0}
    net, vs, syms = make_network(shape, sp)
    try:
        cg = CodeGenerator(net, None)
        code = cg.generate_code()
        names = [cg.polar_variable_names[n] for n, _, _ in shape]
    except Exception as e:
        out["records"].append({"kind": "violation", "key": f"{name}|generate", "tag": name, "what": f"CodeGenerator fails on {shape}: {type(e).__name__}: {e}", "replay": {"shape": str(shape)}})
        return out
    if len(set(names)) != len(names):
        out["records"].append({"kind": "violation", "key": f"{name}|names", "tag": name, "what": f"sanitised variable names collide: {names}", "replay": {"shape": str(shape), "code": code}})
        return out
    try:
        prog = parse_text(code.replace("\t", "    "))
        I = Interp(prog)
        paths = I.iteration(I.run_initial())
    except Exception as e:  # noqa
        out["records"].append({"kind": "inconclusive", "tag": name, "why": f"own reader/oracle: {type(e).__name__}: {e}"[:200]})
        return out
    truth = joint(shape, vs, sp)
    got = {}
    for p in paths:
        if p.pc or p.draws:
            out["records"].append({"kind": "inconclusive", "tag": name, "why": "symbolic branch in generated loop"})
            return out
        val = []
        for n in names:
            q = I.lookup(p.env, n)
            val.append(int(q.cval()) if q.is_const() else None)
        got[tuple(val)] = got.get(tuple(val), QPoly()) + p.w
    zs = {}

    def zv(nm):
        if nm not in zs:
            zs[nm] = z3.Real(nm)
        return zs[nm]
    assume = []
    for s in syms:
        assume += [zv(s.name) > 0, zv(s.name) < 1]
    for val, pr in truth.items():
        g = got.get(val, QPoly())
        v, model = smt.decide(assume + [g.to_z3(zv) != sym2q(pr, sp).to_z3(zv)], out["stats"], 20000, tag=f"{name}:P{val}", keep_sample=(out["checked"] < 1))
        out["checked"] += 1
        if out["mutants"] == 0:
            mv, _ = smt.decide(assume + [g.to_z3(zv) != sym2q(pr, sp).to_z3(zv) * 2], None, 10000)
            out["mutants"] += 1
            if mv != "sat":
                out["records"].append({"kind": "harness", "tag": name, "why": "self-mutant not refuted"})
        if v == "sat":
            vals = {s.name: Fraction(model.get(s.name, 0)) for s in syms}
            a, b = g.evalq(vals), sym2q(pr, sp).evalq(vals)
            if a != b:
                out["records"].append({"kind": "violation", "key": f"{name}|P{val}", "tag": name,
                                       "what": f"generated loop for {shape}: P(values {val}) after one iteration is {a}, network joint law gives {b} at {dict((k, str(x)) for k, x in vals.items())}",
                                       "replay": {"shape": str(shape), "code": code, "valuation": list(val), "values": {k: str(x) for k, x in vals.items()}}})
            else:
                out["records"].append({"kind": "harness", "tag": name, "why": "model did not replay"})
        elif v != "unsat":
            out["records"].append({"kind": "inconclusive", "tag": f"{name}:P{val}", "why": "solver unknown"})
    extra = [k for k in got if k not in truth and not got[k].is_zero()]
    if extra:
        out["records"].append({"kind": "violation", "key": f"{name}|support", "tag": name, "what": f"generated loop reaches valuations outside the domains: {extra}", "replay": {"shape": str(shape), "code": code}})
    return out


def job_query(item):
    """Q4 / Q5 through the real query classes, generator, parser and analysis; CPT entries symbolic"""
    import sympy as sp
    import z3
    from bayesnet.code_generator import CodeGenerator
    from bayesnet.query.exact_inference_query import ExactInferenceQuery
    from bayesnet.query.sampling_time_query import SamplingTimeQuery
    from cli.common import transform_to_after_loop
    from vlib.s2z import Tr
    shape, kind, target, power, evidence = item
    name = f"query/{kind}/" + "-".join(f"{n}{s}" for n, s, p in shape) + f"/{target}**{power}|{evidence}"
    out = {"name": name, "records": [], "stats": smt.new_stats(), "paths": 0, "checked": 0, "mutants": 0, "refusals": []}
    net, vs, syms = make_network(shape, sp, numeric=(kind == "sampling"))
    ev_text = ", ".join(f"{shape[i][0]} = val{v}" for i, v in evidence)
    try:
        with polar_iface.time_limit(item_timeout(shape)):
            if kind == "inference":
                q = ExactInferenceQuery(f"{shape[target][0]}**{power} | {ev_text}", net)
            else:
                q = SamplingTimeQuery(ev_text, net)
            cg = CodeGenerator(net, q)
            code = cg.generate_code()
            goals = [g[2:-1] for g in q.generate_query(net, cg.polar_variable_names)]
            res = polar_iface.closed_forms(code, goals, per_goal_timeout=item_timeout(shape))
            if res["exc"] or any("cf" not in res["goals"].get(g, {}) for g in goals):
                out["refusals"].append({"id": name, **(res["exc"] or next(iter(r.get("exc", {"type": "Timeout", "msg": "", "where": ""}) for r in res["goals"].values() if "cf" not in r)))})
                return out
            rs = [sp.sympify(res["goals"][g]["cf"]) for g in goals]
            if kind == "inference":
                val = transform_to_after_loop(rs[0] / rs[1])
            else:
                val = transform_to_after_loop(rs[0])
    except polar_iface.JobTimeout:
        out["refusals"].append({"id": name, "type": "Timeout", "msg": "", "where": ""})
        return out
    except Exception as e:
        out["refusals"].append({"id": name, **polar_iface.exc_info(e)})
        return out
    if val is None:
        out["refusals"].append({"id": name, "type": "NoLimit", "msg": "limit_seq returned None", "where": "cli/common.py:transform_to_after_loop"})
        return out
    nsyms = [s_ for s_ in sp.sympify(val).free_symbols if s_.name == "n"]
    if nsyms:
        v1, v2 = sp.simplify(sp.sympify(val).subs({s_: 1 for s_ in nsyms})), sp.simplify(sp.sympify(val).subs({s_: 5 for s_ in nsyms}))
        if not syms and sp.simplify(v1 - v2) != 0:
            out["records"].append({"kind": "violation", "key": name, "tag": name,
                                   "what": f"{kind} query on {shape}: the reported value after the loop still depends on the iteration count n: {str(val)[:160]} (n=1: {v1}, n=5: {v2})",
                                   "replay": {"shape": str(shape), "kind": kind, "code": code, "reported": str(val)}})
            return out
    truth = joint(shape, vs, sp)
    pe = sum(p for v, p in truth.items() if all(v[i] == x for i, x in evidence))
    if kind == "inference":
        num = sum(sp.Integer(v[target]) ** power * p for v, p in truth.items() if all(v[i] == x for i, x in evidence))
        want = num / pe
    else:
        want = 1 / pe
    zs = {}

    def zv(nm):
        if nm not in zs:
            zs[nm] = z3.Real(nm)
        return zs[nm]
    assume = []
    for s in syms:
        assume += [zv(s.name) > 0, zv(s.name) < 1]
    # rows with three values: the implicit last probability must be positive as well
    for v in vs:
        for row in v.cpt.values():
            t = Tr(sym=zv)
            assume.append(t.tr(row[-1])[0] > 0)
    try:
        t = Tr(sym=zv)
        a, _ = t.tr(sp.simplify(val))
        b, _ = t.tr(sp.simplify(want))
    except Exception as e:  # noqa
        out["records"].append({"kind": "inconclusive", "tag": name, "why": f"translation {type(e).__name__}: {e}"[:160]})
        return out
    v, model = smt.decide(assume + t.constraints() + [a != b], out["stats"], 60000, tag=name)
    out["checked"] += 1
    mv, _ = smt.decide(assume + t.constraints() + [a != b + 1], None, 10000)
    out["mutants"] += 1
    if mv != "sat":
        out["records"].append({"kind": "harness", "tag": name, "why": "self-mutant not refuted"})
    if v == "sat":
        sub = {s: sp.Rational(model.get(s.name, sp.Rational(1, 2))) for s in syms}
        pv, wv = sp.simplify(val.subs(sub)), sp.simplify(want.subs(sub))
        if sp.simplify(pv - wv) != 0:
            out["records"].append({"kind": "violation", "key": name, "tag": name,
                                   "what": f"{kind} query on {shape}: Polar reports {pv}, enumeration of the joint law gives {wv} at {dict((str(k), str(x)) for k, x in sub.items())}",
                                   "replay": {"shape": str(shape), "kind": kind, "code": code, "values": {str(k): str(x) for k, x in sub.items()}, "polar": str(val), "truth": str(want)}})
        else:
            out["records"].append({"kind": "harness", "tag": name, "why": "model did not replay"})
    elif v != "unsat":
        out["records"].append({"kind": "inconclusive", "tag": name, "why": "solver unknown"})
    return out


def item_timeout(shape):
    return 60 + 40 * len(shape)


# --------------------------------------------------------------------------- concrete BIF text validation

def bif_text(notation, rows, cdom, pdom):
    vals = lambda n: ", ".join(f"v{i}" for i in range(n))  # noqa
    txt = "network n { }\n"
    txt += f"variable P {{ type discrete [ {pdom} ] {{ {vals(pdom)} }}; }}\n"
    txt += f"variable C {{ type discrete [ {cdom} ] {{ {vals(cdom)} }}; }}\n"
    txt += "probability ( P ) { table " + ", ".join(str(1 / pdom if i else 1 - (pdom - 1) / pdom) for i in range(pdom)) + "; }\n"
    txt += "probability ( C | P ) {\n"
    if notation == "table":
        flat = [rows[r][c] for c in range(cdom) for r in range(pdom)]
        txt += "  table " + ", ".join(map(str, flat)) + ";\n"
    elif notation == "entries":
        for r in range(pdom):
            txt += f"  (v{r}) " + ", ".join(map(str, rows[r])) + ";\n"
    else:
        txt += "  default " + ", ".join(map(str, rows[0])) + ";\n"
        for r in range(1, pdom):
            txt += f"  (v{r}) " + ", ".join(map(str, rows[r])) + ";\n"
    txt += "}\n"
    return txt


def job_bif_text(seed):
    from bayesnet.parser import BifParser
    out = {"name": "bif-text", "records": [], "stats": smt.new_stats(), "paths": 0, "checked": 0, "mutants": 0, "validated": 0}
    rnd = random.Random(seed)
    d = tempfile.mkdtemp(prefix="polar_verif_bif_")
    try:
        for trial in range(12):
            pdom, cdom = rnd.choice([2, 3]), rnd.choice([2, 3])
            rows = []
            for r in range(pdom):
                cuts = sorted(rnd.randint(1, 99) for _ in range(cdom - 1))
                row = [cuts[0]] + [cuts[i] - cuts[i - 1] for i in range(1, cdom - 1)] + [100 - cuts[-1]]
                rows.append([x / 100 for x in row])
            nets = {}
            for notation in ("table", "entries", "default+entries"):
                f = os.path.join(d, "n.bif")
                with open(f, "w") as fh:
                    fh.write(bif_text(notation, rows, cdom, pdom))
                nets[notation] = BifParser().parse_file(f)
                os.remove(f)
            want = {(f"v{r}",): tuple(rows[r]) for r in range(pdom)}
            for notation, net in nets.items():
                out["validated"] += 1
                if net.variables["C"].cpt != want:
                    out["records"].append({"kind": "violation", "key": f"bif-text|{notation}", "tag": "bif-text",
                                           "what": f"BIF text in {notation} notation yields CPT {net.variables['C'].cpt}, the text denotes {want}", "replay": {"rows": rows, "notation": notation}})
    finally:
        try:
            os.rmdir(d)
        except OSError:
            pass
    return out


def main():
    run = Run("C15", "other")
    work = []
    scen = []
    for pdoms, cdom in (([2], 2), ([3], 2), ([2], 3)) if run.quick else (([2], 2), ([3], 2), ([2], 3), ([2, 2], 2), ([3], 3)):
        nrows = 1
        for n in pdoms:
            nrows *= n
        for d, t in itertools.product((False, True), repeat=2):
            for ent in itertools.product((False, True), repeat=nrows) if nrows <= 3 else [(False,) * nrows, (True,) + (False,) * (nrows - 1), (True,) * nrows, (False, True, False, True)]:
                scen.append({"pdoms": pdoms, "cdom": cdom, "present": {"default": d, "table": t, "entries": list(ent)}})
    for s in scen:
        work.append((job_cpt, s, f"cpt/{s['pdoms']}/{s['cdom']}/{s['present']}"))
    shapes = SHAPES[:10] if run.quick else SHAPES
    for sh in shapes:
        work.append((job_joint, sh, f"joint/{sh}"))
    queries = [
        (SHAPES[0], "inference", 1, 1, [(0, 1)]), (SHAPES[0], "inference", 0, 1, [(1, 0)]), (SHAPES[0], "sampling", None, None, [(1, 1)]),
        (SHAPES[1], "inference", 1, 2, [(0, 0)]), (SHAPES[3], "inference", 0, 1, [(2, 1)]), (SHAPES[3], "sampling", None, None, [(2, 1), (0, 0)]),
        (SHAPES[2], "inference", 0, 2, [(1, 1)]), (SHAPES[5], "inference", 0, 1, [(2, 1)]),
    ]
    queries += [(SHAPES[7], "inference", 1, 2, [(2, 1)]), (SHAPES[7], "sampling", None, None, [(0, 1), (2, 1)])]
    if not run.quick:
        queries += [(SHAPES[4], "inference", 2, 3, [(0, 1), (1, 0)]), (SHAPES[4], "sampling", None, None, [(2, 0)]), (SHAPES[3], "inference", 1, 1, [(2, 0)]),
                    (SHAPES[1], "sampling", None, None, [(1, 2)]), (SHAPES[-1], "inference", 1, 1, [(2, 1)])]
    # network variables whose names collide with the helper variables of the queries ("count", "continue"), literally and
    # only after sanitising (lower-casing, stripping)
    for hs, ev in (([("Rain", 2, []), ("Count", 2, [0])], [(0, 1)]), ([("Rain", 2, []), ("Count", 2, [0])], [(1, 1)]), ([("Continue", 2, []), ("B", 2, [0])], [(1, 1)]),
                   ([("count", 2, []), ("B", 2, [0])], [(1, 0)]), ([("COUNT-", 2, []), ("continue", 2, [0])], [(0, 1), (1, 0)])):
        queries.append((hs, "sampling", None, None, ev))
        queries.append((hs, "inference", 0, 1, [(1, 1)]))
    for q in queries:
        work.append((job_query, q, f"query/{q[1]}/{q[0]}"))
    work.append((job_bif_text, run.seed, "bif-text"))
    if run.args.only:
        work = [w for w in work if run.args.only in w[2]]

    def dispatch(i):
        f, arg, _ = work[i]
        return f(arg)
    results = jobs.run_jobs(dispatch, [(i,) for i in range(len(work))], timeout=900)
    run.notes.append({"slowest_jobs": jobs.slowest(work, lambda w: w[2][:80])})
    checked = paths = muts = groups = validated = 0
    for (f, arg, name), (st, val) in zip(work, results):
        if st != "ok":
            run.job_failed(name[:100], st, val)
            continue
        run.add_stats(val["stats"])
        checked += val["checked"]
        paths += val.get("paths", 0)
        muts += val.get("mutants", 0)
        validated += val.get("validated", 0)
        groups += 1 if val["checked"] else 0
        for r in val.get("refusals", []):
            run.refusal(r)
        for r in val["records"]:
            if r["kind"] == "violation":
                run.violation(r["key"], r["what"], r["replay"])
            elif r["kind"] == "harness":
                run.harness_error(f"{r['tag']}: {r['why']}")
            else:
                run.inconc(f"{r['tag']}: {r['why']}")
    run.sample({"cpt_scenario": scen[5] if len(scen) > 5 else None, "network_shapes": [str(s) for s in shapes[:4]], "queries": [f"{q[1]} on {q[0]}" for q in queries[:4]]})
    run.functions = ["bayesnet.transformer:NetworkTransformer.__add_cpt__/__add_default__/__add_table__/__add_entry__", "bayesnet.bayes_network:BayesNetwork.cpt_entry_sum_valid",
                     "bayesnet.bayes_variable:BayesVariable.cpt_init/cpt_set_entry/cpt_has_nan", "bayesnet.code_generator:CodeGenerator.generate_code",
                     "bayesnet.query.exact_inference_query:ExactInferenceQuery", "bayesnet.query.sampling_time_query:SamplingTimeQuery", "cli.common:transform_to_after_loop",
                     "bayesnet.parser:BifParser.parse_file (concrete validation only)"]
    run.bounds = {"cpt_assembly": f"{len(scen)} scenarios (parent domains, child domain, which notations present), all probabilities symbolic reals in [0,1], all feasible paths",
                  "networks": f"{len(shapes)} DAG shapes with <= 4 variables, domain sizes 2-3, every CPT entry symbolic in (0,1)", "queries": len(queries),
                  "outside": "Lark parsing of BIF text (validated on generated concrete texts only); float summation order inside the tolerance check is modelled in reals"}
    run.assumptions = ["floats are modelled as reals in the acceptance logic", "symbolic networks bypass cpt_entry_sum_valid (rows are written p, ..., 1 - sum)",
                       "CPT entries lie strictly between 0 and 1 for the query results (denominators non-zero)"]
    run.coverage["paths_closed"] = paths
    run.coverage["traces_validated_against_impl"] = validated
    run.finish(explanation="CPT assembly: per-path symbolic execution of the real acceptance code with z3 reals, each path closed against an overlay specification; generation and queries: real generator/analysis run on symbolic CPT entries, results compared with enumeration of the joint law by z3 for all CPT values",
               evaluations=checked, distinct_nontrivial=groups, rule="scenarios / network shapes / queries with at least one discharged query", self_mutants_refuted=muts)


if __name__ == "__main__":
    main()
