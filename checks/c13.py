"""C13 -- Sin/Cos/Exp moments.

(Q1) algebraic core: the real get_func_moment is run on a Dirac stub at a symbolic point X (cf = exp(I t X), mgf = exp(t X));
by linearity in the law an identity for every Dirac law transfers to every law whose transform is right (C08).  The
answer must equal X^a sin^b X cos^c X resp. X^a exp(c X) for all X on the unit-circle encoding.
(Q2) mixing Exp with Sin/Cos must be rejected.  (Q4) mgf existence region and rejection outside.  (Q5) constants.
(Q6) end to end, exact mode: programs whose functional arguments are finitely-valued draws, references and constants,
against the reference semantics (sin/cos/exp of rational constants as algebraic atoms on the unit circle)."""
import itertools
import sys
from fractions import Fraction
from vlib import polar_iface  # noqa
from vlib import smt, jobs, families
from vlib.findings import Run
from vlib.lang import parse_text, LangError
from vlib.s2z import Tr, Untranslatable, at_n
from vlib.sem import Unsupported
from vlib import momentcheck as mc


def dirac_stub(sp):
    from program.distribution import Distribution
    X = sp.Symbol("X", real=True)

    class Dirac(Distribution):
        def set_parameters(self, parameters):
            pass

        def get_moment(self, k):
            return X ** k

        def is_discrete(self):
            return True

        def sample(self, state):
            raise NotImplementedError

        def subs(self, substitutions):
            pass

        def get_support(self):
            return {X}

        def get_free_symbols(self):
            return set()

        def cf(self, t):
            return sp.exp(sp.I * sp.sympify(t) * X)

        def mgf(self, t):
            return sp.exp(sp.sympify(t) * X)

        def mgf_exists_at(self, t):
            return True

        def __str__(self):
            return "Dirac(X)"
    return Dirac([]), X


def job_core(item):
    import sympy as sp
    import z3
    from program.assignment import FunctionalAssignment
    triples, kind = item
    out = {"records": [], "stats": smt.new_stats(), "checked": 0, "mutants": 0}
    FunctionalAssignment.exact_func_moments = True
    d, X = dirac_stub(sp)
    c, s_, xz = z3.Real("cosX"), z3.Real("sinX"), z3.Real("X")
    E = None
    for a, b, cc in triples:
        powers = {}
        if a:
            powers["Id"] = a
        if kind == "trig":
            if b:
                powers["Sin"] = b
            if cc:
                powers["Cos"] = cc
            if not b and not cc:
                continue
        else:
            if not cc:
                continue
            powers["Exp"] = cc
        tag = f"{kind}:Id^{a} Sin^{b} Cos^{cc}" if kind == "trig" else f"exp:Id^{a} Exp^{cc}"
        try:
            with polar_iface.time_limit(60):
                res = sp.sympify(FunctionalAssignment.get_func_moment(d, dict(powers)))
        except polar_iface.JobTimeout:
            out["records"].append({"kind": "inconclusive", "tag": tag, "why": "timeout"})
            continue
        except AssertionError as e:
            out["records"].append({"kind": "violation", "key": f"core|{tag}", "tag": tag, "what": f"get_func_moment(Dirac(X), {powers}) fails its own assertion (imaginary part not recognised as zero)",
                                   "replay": {"powers": powers}})
            continue
        except Exception as e:
            out["records"].append({"kind": "inconclusive", "tag": tag, "why": f"{type(e).__name__}: {e}"[:140]})
            continue
        try:
            t = Tr(sym=lambda n: xz if n == "X" else z3.Real(n), uf=True, unit={"X": (c, s_)})
            re, im = t.tr(res)
        except (Untranslatable, Exception) as e:  # noqa
            out["records"].append({"kind": "inconclusive", "tag": tag, "why": f"translation {type(e).__name__}: {e}"[:140]})
            continue
        truth = z3.RealVal(1)
        for _ in range(a):
            truth = truth * xz
        cons = t.constraints() + [c * c + s_ * s_ == 1]
        if kind == "trig":
            for _ in range(b):
                truth = truth * s_
            for _ in range(cc):
                truth = truth * c
        else:
            ex = t.uf_app("exp", xz)
            cons.append(ex > 0)
            for _ in range(cc):
                truth = truth * ex
        neq = re != truth if im is None else z3.Or(re != truth, im != 0)
        v, model = smt.decide(cons + [neq], out["stats"], 60000, tag=tag)
        out["checked"] += 1
        if (a, b, cc) in ((1, 1, 1), (1, 0, 1)):
            mv, _ = smt.decide(cons + [re != truth + 1], None, 20000)
            out["mutants"] += 1
            if mv != "sat":
                out["records"].append({"kind": "harness", "tag": tag, "why": "self-mutant not refuted"})
        if v == "sat":
            # confirm numerically at X = 7/10 (uninterpreted encodings are incomplete)
            x0 = sp.Rational(7, 10)
            val = complex(sp.N(res.subs(X, x0), 30))
            tr_ = float(x0) ** a * (float(sp.sin(x0)) ** b * float(sp.cos(x0)) ** cc if kind == "trig" else float(sp.exp(x0)) ** cc)
            if abs(val - tr_) > 1e-9:
                out["records"].append({"kind": "violation", "key": f"core|{tag}", "tag": tag,
                                       "what": f"get_func_moment(Dirac(X), {powers}) = {res}; at X = 7/10 this is {val}, the true value {tr_}",
                                       "replay": {"powers": powers, "result": str(res)}})
            else:
                out["records"].append({"kind": "inconclusive", "tag": tag, "why": "sat in the abstraction but numerically equal"})
        elif v != "unsat":
            out["records"].append({"kind": "inconclusive", "tag": tag, "why": "solver unknown"})
    return out


def job_misc(_):
    """mixing, existence region, constants"""
    import sympy as sp
    import z3
    from program.assignment import FunctionalAssignment
    from program.assignment.exceptions import FunctionalAssignmentException
    from program.distribution import distribution_factory
    out = {"records": [], "stats": smt.new_stats(), "checked": 0, "mutants": 0}
    FunctionalAssignment.exact_func_moments = True
    d, X = dirac_stub(sp)
    for powers in ({"Sin": 1, "Exp": 1}, {"Cos": 2, "Exp": 1, "Id": 1}, {"Sin": 1, "Cos": 1, "Exp": 2}):
        out["checked"] += 1
        try:
            res = sp.sympify(FunctionalAssignment.get_func_moment(d, dict(powers)))
        except FunctionalAssignmentException:
            continue
        except Exception as e:
            out["records"].append({"kind": "inconclusive", "tag": f"mixing:{powers}", "why": f"{type(e).__name__}: {e}"[:120]})
            continue
        x0 = sp.Rational(7, 10)
        val = complex(sp.N(res.subs(X, x0), 30))
        truth = float(x0) ** powers.get("Id", 0) * float(sp.sin(x0)) ** powers.get("Sin", 0) * float(sp.cos(x0)) ** powers.get("Cos", 0) * float(sp.exp(x0)) ** powers.get("Exp", 0)
        if abs(val - truth) > 1e-9:
            out["records"].append({"kind": "violation", "key": f"mixing|{sorted(powers.items())}", "tag": "mixing",
                                   "what": f"a moment mixing Exp with Sin/Cos ({powers}) is answered with {res} (at X = 7/10: {val}, truth {truth}) instead of being rejected",
                                   "replay": {"powers": powers, "result": str(res)}})
    # existence region of the mgf and rejection outside it
    grid = {"DistExp": ([["1"], ["2"], ["1/2"], ["3"]], lambda P, t: t < P[0]),
            "Gamma": ([["2", "1"], ["1", "1/2"], ["3", "2"], ["2", "1/3"]], lambda P, t: t < 1 / P[1]),
            "Laplace": ([["0", "1"], ["1", "1/2"], ["0", "2"], ["-1", "1/3"]], lambda P, t: abs(t) < 1 / P[1]),
            "Normal": ([["0", "1"], ["1", "4"]], lambda P, t: True),
            "Uniform": ([["0", "1"]], lambda P, t: True), "Bernoulli": ([["1/3"]], lambda P, t: True), "DiscreteUniform": ([["1", "3"]], lambda P, t: True)}
    for fam, (plist, region) in grid.items():
        for ps in plist:
            dd = distribution_factory(fam, ps)
            P = [Fraction(p) for p in ps]
            for t in range(-4, 5):
                out["checked"] += 1
                try:
                    got = bool(dd.mgf_exists_at(sp.Integer(t)))
                except Exception as e:
                    out["records"].append({"kind": "inconclusive", "tag": f"exists:{fam}{ps}:{t}", "why": f"{type(e).__name__}"})
                    continue
                want = bool(region(P, Fraction(t)))
                if got != want:
                    out["records"].append({"kind": "violation", "key": f"mgf_exists_at|{fam}({', '.join(ps)})|{t}", "tag": "existence",
                                           "what": f"{fam}({', '.join(ps)}).mgf_exists_at({t}) = {got}, the moment generating function {'exists' if want else 'does not exist'} there",
                                           "replay": {"family": fam, "params": ps, "t": t}})
                if not want and t > 0:
                    # E(X^a exp(tX)) exists exactly where E(exp(tX)) does: every such request must be rejected, also the mixed ones
                    for powers in ({"Exp": t}, {"Id": 1, "Exp": t}, {"Id": 2, "Exp": t}):
                        out["checked"] += 1
                        try:
                            r = FunctionalAssignment.get_func_moment(dd, dict(powers))
                            out["records"].append({"kind": "violation", "key": f"get_exp_moment|{fam}({', '.join(ps)})|{sorted(powers.items())}", "tag": "existence",
                                                   "what": f"E(X^{powers.get('Id', 0)} exp({t} X)) for X ~ {fam}({', '.join(ps)}) does not exist but is answered with {r}",
                                                   "replay": {"family": fam, "params": ps, "powers": powers}})
                        except FunctionalAssignmentException:
                            pass
                        except Exception as e:  # noqa
                            out["records"].append({"kind": "inconclusive", "tag": f"exists:{fam}{ps}:{powers}", "why": f"{type(e).__name__}: {e}"[:100]})
    # constants: Sin/Cos/Exp of a number
    for func, num, k in itertools.product(("Sin", "Cos", "Exp"), ("1", "2", "3", "-1", "0"), (1, 2, 3)):
        try:
            fa = FunctionalAssignment("v", func, num)
            res = sp.sympify(fa.get_const_moment(k))
        except Exception as e:
            out["records"].append({"kind": "inconclusive", "tag": f"const:{func}({num})^{k}", "why": f"{type(e).__name__}: {e}"[:120]})
            continue
        f = {"Sin": sp.sin, "Cos": sp.cos, "Exp": sp.exp}[func]
        truth = f(sp.Rational(num)) ** k
        t = Tr(uf=True)
        a, b = t.tr(res), t.tr(truth)
        v, _ = smt.decide(t.constraints() + [a[0] != b[0]], out["stats"], 20000, tag=f"const:{func}({num})^{k}", keep_sample=False)
        out["checked"] += 1
        if v == "sat":
            if abs(complex(sp.N(res - truth, 30))) > 1e-12:
                out["records"].append({"kind": "violation", "key": f"const|{func}({num})|{k}", "tag": "const", "what": f"{func}({num})**{k} evaluated as {res}, true value {sp.N(truth, 20)}",
                                       "replay": {"func": func, "arg": num, "k": k}})
            else:
                out["records"].append({"kind": "inconclusive", "tag": f"const:{func}({num})^{k}", "why": "sat in the abstraction but numerically equal"})
    return out


def job_e2e(item):
    """closed forms of programs with functional assignments (exact mode) vs the reference semantics, n <= N"""
    import sympy as sp
    pid, text, goals, N = item["id"], item["text"], item["goals"], item["N"]
    out = {"id": pid, "records": [], "stats": smt.new_stats(), "checked": 0, "mutants": 0, "refusals": [], "skipped": None}
    try:
        prog = parse_text(text)
    except LangError as e:
        out["skipped"] = f"own reader: {e}"
        return out
    res = polar_iface.closed_forms(text, goals, per_goal_timeout=60, exact_func_moments=True)
    if res["exc"]:
        out["refusals"].append({"id": pid, **res["exc"]})
        return out
    good = [g for g in goals if "cf" in res["goals"].get(g, {})]
    for g in goals:
        if g not in good:
            out["refusals"].append({"id": pid, "goal": g, **res["goals"].get(g, {}).get("exc", {"type": "Timeout", "msg": "", "where": ""})})
    try:
        I, seqs = mc.oracle_sequences(prog, good, N)
    except (Unsupported, ZeroDivisionError) as e:
        out["skipped"] = f"oracle: {e}"
        return out
    for g in good:
        cf = sp.sympify(res["goals"][g]["cf"])
        for k in range(N + 1):
            tag = f"{pid}:{g}:n={k}"
            try:
                ek = at_n(cf, k)
                v, model, _ = mc.compare(ek, I, seqs[g][k], out["stats"], 60000, tag)
            except (Untranslatable, NotImplementedError) as e:
                out["records"].append({"kind": "inconclusive", "tag": tag, "why": f"translation: {e}"[:140]})
                continue
            out["checked"] += 1
            if v == "sat":
                try:
                    rp = mc.replay(prog, g, k, model, ek)
                    pv, ov = complex(sp.N(sp.sympify(rp["polar"]), 30)), float(Fraction(rp["oracle"]))
                    differ = abs(pv - ov) > 1e-20 * (1 + abs(ov))
                except Exception as e:  # noqa
                    out["records"].append({"kind": "inconclusive", "tag": tag, "why": f"replay failed {type(e).__name__}: {e}"[:140]})
                    continue
                if differ:
                    out["records"].append({"kind": "violation", "key": f"{pid}|E({g})", "tag": tag,
                                           "what": f"E({g}) at n={k}: Polar {sp.N(sp.sympify(rp['polar']), 15)} vs exact {ov} (closed form {str(cf)[:140]})",
                                           "replay": {"text": text, "goal": g, "n": k, "closed_form": str(cf), "values": rp["values"]}})
                    break
                out["records"].append({"kind": "inconclusive", "tag": tag, "why": "sat in the abstraction but numerically equal"})
            elif v != "unsat":
                out["records"].append({"kind": "inconclusive", "tag": tag, "why": "solver unknown"})
    return out


def main():
    run = Run("C13", "other")
    amax, bmax = (2, 3) if run.quick else (3, 4)
    trig = [(a, b, c) for a in range(amax + 1) for b in range(bmax + 1) for c in range(bmax + 1)]
    expo = [(a, 0, c) for a in range(amax + 2) for c in range(1, bmax + 2)]
    chunks = [(trig[i::6], "trig") for i in range(6)] + [(expo[i::2], "exp") for i in range(2)]
    work = [(job_core, ch, f"core/{ch[1]}/{i}") for i, ch in enumerate(chunks)] + [(job_misc, None, "misc")]
    for pid, text, goals in families.corpus("corpus_func"):
        work.append((job_e2e, {"id": pid, "text": text, "goals": goals, "N": 3 if run.quick else 5}, f"e2e/{pid}"))
    if run.args.only:
        work = [w for w in work if run.args.only in w[2]]

    def dispatch(i):
        f, arg, _ = work[i]
        return f(arg)
    results = jobs.run_jobs(dispatch, [(i,) for i in range(len(work))], timeout=900)
    checked = muts = groups = 0
    for (f, arg, name), (st, val) in zip(work, results):
        if st != "ok":
            run.job_failed(name, st, val)
            continue
        run.add_stats(val["stats"])
        checked += val["checked"]
        muts += val["mutants"]
        groups += 1 if val["checked"] else 0
        for r in val.get("refusals", []):
            run.refusal(r)
        if val.get("skipped"):
            run.inconc(f"{name}: outside the oracle ({val['skipped']})")
        for r in val["records"]:
            if r["kind"] == "violation":
                run.violation(r["key"], r["what"], r["replay"])
            elif r["kind"] == "harness":
                run.harness_error(f"{r['tag']}: {r['why']}")
            else:
                run.inconc(f"{r['tag']}: {r['why']}")
    run.sample({"core_triples": trig[:5] + expo[:3], "e2e_programs": [w[2] for w in work if w[2].startswith("e2e/")]})
    run.functions = ["program.assignment.functional_assignment:FunctionalAssignment.get_func_moment/get_trig_moment/get_exp_moment/get_const_moment/convert_func_moment",
                     "program.assignment.dist_assignment:DistAssignment._get_mixed_func_moment", "recurrences.rec_builder_context:RecBuilderContext",
                     "recurrences.rec_builder:RecBuilder._replace_assign (triggers)", "program.transformer.update_info_transformer:_set_dists_for_func_assignments",
                     "program.distribution.*:mgf_exists_at"]
    run.bounds = {"exponent_triples": f"(a, b, c) <= ({amax}, {bmax}, {bmax}) for X^a sin^b cos^c; a <= {amax + 1}, c <= {bmax + 1} for X^a exp(cX)",
                  "law": "Dirac stub at a symbolic point X: identities transfer to every law by linearity, given correct transforms (C08)",
                  "e2e": "corpus_func/*.prob: functional arguments are finitely-valued draws, references or constants; exact mode; n <= 3/5",
                  "outside": "the 20-digit rational rounding of non-exact mode; end-to-end programs with functionals of continuous draws (their core is Q1 + C08)"}
    run.assumptions = ["(cos X, sin X) ranges over the unit circle, exp X > 0; exp/sin/cos of other arguments are uninterpreted with integer multiples as powers",
                       "a sat in the abstraction counts only after numeric confirmation"]
    run.finish(explanation="the real moment code run on a Dirac stub returns a term in X; equality with X^a sin^b X cos^c X (resp. X^a exp(cX)) is decided by z3 over the unit-circle / positive-exp abstraction for all X",
               evaluations=checked, distinct_nontrivial=groups, rule="obligation groups: chunks of exponent triples, mixing/existence/constants, end-to-end programs", self_mutants_refuted=muts)


if __name__ == "__main__":
    main()
