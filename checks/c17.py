"""C17 -- strategy / representation options do not change any reported moment; numeric-root options only within
precision and never flagged exact."""
import itertools
import sys
from fractions import Fraction
from vlib import polar_iface  # noqa
from vlib import smt, jobs, families
from vlib.findings import Run
from vlib.lang import parse_text, LangError
from vlib.sem import Unsupported
from vlib.s2z import Tr, at_n, Untranslatable
from vlib import momentcheck as mc

SETTINGS = [
    ("cond2arithm", {"cond2arithm": True}, False),
    ("transform_categoricals", {"transform_categoricals": True}, False),
    ("cond2arithm+transform_categoricals", {"cond2arithm": True, "transform_categoricals": True}, False),
    ("force_cyclic_solver", {}, True),
    ("cond2arithm+force_cyclic", {"cond2arithm": True}, True),
]


def job(item):
    import sympy as sp
    import z3
    pid, text, goals, N = item["id"], item["text"], item["goals"], item["N"]
    out = {"id": pid, "records": [], "stats": smt.new_stats(), "refusals": [], "skipped": None, "checked": 0, "mutants": 0, "settings": 0}
    try:
        prog = parse_text(text)
    except LangError as e:
        out["skipped"] = f"own reader: {e}"
        return out
    base = polar_iface.closed_forms(text, goals, per_goal_timeout=item.get("goal_timeout", 40))
    if base["exc"]:
        out["refusals"].append({"id": pid, "setting": "default", **base["exc"]})
        return out
    good = [g for g in goals if "cf" in base["goals"].get(g, {})]
    if not good:
        return out
    try:
        I, seqs = mc.oracle_sequences(prog, good, N)
    except (Unsupported, ZeroDivisionError) as e:
        I, seqs = None, None
        from vlib.sem import Interp, assumptions_for_program
        I = Interp(prog)
        for c in assumptions_for_program(prog, I):
            I.assume(c)
    settings = list(SETTINGS)
    # explicit types instead of inference: declare the inferred types of the source variables and disable inference
    try:
        from program.type import Finite
        src = set(prog.assigned_vars())
        decl = []
        for v, t in base["program"].typedefs.items():
            if isinstance(t, Finite) and str(v) in src and str(v) not in prog.types:
                decl.append(f"    {v} : Finite({', '.join(str(x) for x in sorted(t.values, key=lambda q: float(q)))})")
        if decl:
            body = text
            if prog.types:
                pass  # already has a types block: keep as is
            else:
                lines = text.split("\n")
                k = 0
                while k < len(lines) and lines[k].startswith("#"):
                    k += 1
                typed_text = "\n".join(lines[:k] + ["types"] + decl + ["end"] + lines[k:])
                settings.append(("declared-types+disable_type_inference", {"disable_type_inference": True, "__text__": typed_text}, False))
                settings.append(("declared-types", {"__text__": typed_text}, False))
    except Exception:  # noqa
        pass
    for sname, opts, cyc in settings:
        opts = dict(opts)
        t2 = opts.pop("__text__", text)
        res = polar_iface.closed_forms(t2, good, per_goal_timeout=item.get("goal_timeout", 40), force_cyclic=cyc, **opts)
        if res["exc"]:
            out["refusals"].append({"id": pid, "setting": sname, **res["exc"]})
            continue
        out["settings"] += 1
        for g in good:
            r = res["goals"].get(g, {})
            if "cf" not in r:
                out["refusals"].append({"id": pid, "setting": sname, "goal": g, **r.get("exc", {"type": "Timeout", "msg": "", "where": ""})})
                continue
            a, b = sp.sympify(base["goals"][g]["cf"]), sp.sympify(r["cf"])
            for k in range(N + 1):
                tag = f"{pid}:{sname}:E({g}):n={k}"
                try:
                    ta = Tr(sym=I.zv, uf=True)
                    ar, ai = ta.tr(at_n(a, k))
                    br, bi = ta.tr(at_n(b, k))
                except (Untranslatable, Exception) as e:  # noqa
                    out["records"].append({"kind": "inconclusive", "tag": tag, "why": f"translation {type(e).__name__}: {e}"[:140]})
                    continue
                cons = list(I.solver.assertions()) + ta.constraints()
                neq = z3.Or(ar != br, (ai if ai is not None else z3.RealVal(0)) != (bi if bi is not None else z3.RealVal(0)))
                v, model = smt.decide(cons + [neq], out["stats"], 60000, tag=tag)
                out["checked"] += 1
                if out["mutants"] == 0 and k >= 1:
                    mv, _ = smt.decide(cons + [ar != br + 1], None, 20000)
                    out["mutants"] += 1
                    if mv != "sat":
                        out["records"].append({"kind": "harness", "tag": tag, "why": "self-mutant not refuted"})
                if v == "sat":
                    vals = mc.sym_values(model, set(I.z) | {s.name for s in at_n(a, k).free_symbols | at_n(b, k).free_symbols})
                    try:
                        va, vb = mc.eval_sympy_exact(at_n(a, k), vals), mc.eval_sympy_exact(at_n(b, k), vals)
                    except Exception as e:  # noqa
                        out["records"].append({"kind": "inconclusive", "tag": tag, "why": f"replay failed: {e}"[:140]})
                        continue
                    if mc.values_differ(va, vb):
                        truth = None
                        if seqs is not None:
                            try:
                                truth = mc.oracle_value(prog, g, k, vals)
                            except Exception:  # noqa
                                truth = None
                        out["records"].append({"kind": "violation", "key": f"{pid}|{sname}|E({g})", "tag": tag,
                                               "what": f"E({g}) at n={k} is {va} by default and {vb} under {sname} at {dict((x, str(y)) for x, y in vals.items())}" + (f" (exact value {truth})" if truth is not None else ""),
                                               "replay": {"text": t2, "goal": g, "setting": sname, "opts": opts, "force_cyclic": cyc, "n": k, "values": {x: str(y) for x, y in vals.items()}}})
                        break
                    out["records"].append({"kind": "harness", "tag": tag, "why": "model did not replay"})
                elif v != "unsat":
                    out["records"].append({"kind": "inconclusive", "tag": tag, "why": "solver unknown"})
    # numeric root options (parameter-free programs): exactness flag and envelope
    if item.get("numeric") and not any(sp.sympify(base["goals"][g]["cf"]).free_symbols - {sp.Symbol("n"), sp.Symbol("n", integer=True)} for g in good):
        for sname, opts in (("numeric_roots", {"numeric_roots": True}), ("numeric_croots", {"numeric_croots": True}), ("numeric_roots+eps=1e-4", {"numeric_roots": True, "numeric_eps": 1e-4})):
            res = polar_iface.closed_forms(text, good, per_goal_timeout=item.get("goal_timeout", 40), force_cyclic=True, **opts)
            if res["exc"]:
                out["refusals"].append({"id": pid, "setting": sname, **res["exc"]})
                continue
            ref = polar_iface.closed_forms(text, good, per_goal_timeout=item.get("goal_timeout", 40), force_cyclic=True)
            eps = opts.get("numeric_eps", 1e-10)
            for g in good:
                r, r0 = res["goals"].get(g, {}), ref["goals"].get(g, {})
                if "cf" not in r or "cf" not in r0:
                    continue
                for k in range(max(N, 12) + 1):  # beyond the listed beginning values, which are exact under every setting
                    try:
                        x = complex(sp.N(at_n(sp.sympify(r["cf"]), k), 40))
                        y = complex(sp.N(at_n(sp.sympify(r0["cf"]), k), 40))
                    except Exception:  # noqa
                        continue
                    out["checked"] += 1
                    d = abs(x - y)
                    tag = f"{pid}:{sname}:E({g}):n={k}"
                    if r["exact"] and d > 1e-25 * (1 + abs(y)):
                        out["records"].append({"kind": "violation", "key": f"{pid}|{sname}|E({g})|flag", "tag": tag,
                                               "what": f"E({g}) at n={k} under {sname} is {x}, exact {y}, but the solution is flagged exact", "replay": {"text": text, "goal": g, "setting": sname, "n": k}})
                        break
                    if d > max(1e-6, 1e4 * eps) * (1 + abs(y)) * (2 ** k):
                        out["records"].append({"kind": "violation", "key": f"{pid}|{sname}|E({g})|envelope", "tag": tag,
                                               "what": f"E({g}) at n={k} under {sname} deviates by {d:.3g} from the exact value {y} (eps = {eps})", "replay": {"text": text, "goal": g, "setting": sname, "n": k}})
                        break
            # the aggregated flag of the goal kinds built from several raw moments (cumulants, central moments, tail bounds):
            # cli.common.get_all_moments must report "rounded" as soon as one of the moments it returns is rounded
            try:
                from argparse import Namespace
                from symengine import sympify as se
                from recurrences import RecBuilder
                from cli.common import get_all_moments
                g0 = next((g for g in good if g.isidentifier()), None)
                if g0 is not None and res.get("program") is not None and ref.get("program") is not None:
                    polar_iface.set_settings(**opts)
                    with polar_iface.time_limit(item.get("goal_timeout", 40)):
                        ms, flag = get_all_moments(se(g0), 2, {}, RecBuilder(res["program"]), Namespace(solvability_check=False), res["program"])
                    polar_iface.set_settings()
                    with polar_iface.time_limit(item.get("goal_timeout", 40)):
                        ms0, _ = get_all_moments(se(g0), 2, {}, RecBuilder(ref["program"]), Namespace(solvability_check=False), ref["program"])
                    if flag:
                        for i in (1, 2):
                            for k in range(13):
                                x = complex(sp.N(at_n(sp.sympify(ms[i]), k), 40))
                                y = complex(sp.N(at_n(sp.sympify(ms0[i]), k), 40))
                                out["checked"] += 1
                                if abs(x - y) > 1e-25 * (1 + abs(y)):
                                    out["records"].append({"kind": "violation", "key": f"{pid}|{sname}|moments({g0})|flag", "tag": f"{pid}:{sname}:moments({g0})",
                                                           "what": f"get_all_moments({g0}, 2) under {sname}: E({g0}**{i}) at n={k} is {x}, exact {y}, but the moments are flagged exact (cumulant / central / tail-bound goals print 'Solution is exact')",
                                                           "replay": {"text": text, "goal": g0, "setting": sname, "n": k}})
                                    raise StopIteration
            except StopIteration:
                pass
            except polar_iface.JobTimeout:
                pass
            except Exception as e:  # noqa
                out["records"].append({"kind": "inconclusive", "tag": f"{pid}:{sname}:moments", "why": f"{type(e).__name__}: {e}"[:140]})
            finally:
                polar_iface.set_settings()
    return out


def cli_flags():
    """the CLI writes exactly the settings the flags name (concrete enumeration of the 2^6 flag combinations)"""
    import settings
    from cli.argument_parser import ArgumentParser, _set_settings
    flags = ["transform_categoricals", "cond2arithm", "disable_type_inference", "numeric_roots", "numeric_croots", "trivial_guard", "exact_func_moments"]
    bad = []
    n = 0
    for combo in itertools.product((False, True), repeat=len(flags)):
        argv = ["x.prob"] + [f"--{f}" for f, on in zip(flags, combo) if on]
        polar_iface.set_settings()
        ap = ArgumentParser()
        args = ap.argument_parser.parse_args(argv)
        _set_settings(args)
        n += 1
        for f, on in zip(flags, combo):
            if getattr(settings, f) != on:
                bad.append((argv, f, getattr(settings, f)))
    polar_iface.set_settings()
    return n, bad


def main():
    run = Run("C17", "translation_validation")
    N = 3 if run.quick else 5
    items = []
    cands = families.corpus() + families.corpus("corpus_class") + families.corpus("corpus_guard") + families.repo_benchmarks(True, run.seed, limit_quick=0)
    cands += families.generated(run.quick, run.seed, count=(40 if run.quick else 400))
    if not run.quick:
        cands += families.corpus("corpus_sym")
    for pid, text, goals in cands:
        goals = [g for g in goals if g != "@vars"][:(2 if run.quick else 3)]
        if goals:
            items.append({"id": pid, "text": text, "goals": goals, "N": N, "goal_timeout": 15 if run.quick else 60, "numeric": not pid.startswith("gen/") or not run.quick})
    if run.args.only:
        items = [i for i in items if run.args.only in i["id"]]
    results = jobs.run_jobs(job, items, timeout=200 if run.quick else 1500)
    run.notes.append({"slowest_jobs": jobs.slowest(items, lambda it: it["id"])})
    programs = checked = muts = nset = 0
    for it, (st, val) in zip(items, results):
        if st != "ok":
            run.job_failed(it['id'], st, val)
            continue
        run.add_stats(val["stats"])
        for r in val["refusals"]:
            run.refusal(r)
        if val["skipped"]:
            run.inconc(f"{it['id']}: outside ({val['skipped']})")
            continue
        programs += 1 if val["checked"] else 0
        checked += val["checked"]
        muts += val["mutants"]
        nset += val["settings"]
        for r in val["records"]:
            if r["kind"] == "violation":
                run.violation(r["key"], r["what"], r["replay"])
            elif r["kind"] == "harness":
                run.harness_error(f"{r['tag']}: {r['why']}")
            else:
                run.inconc(f"{r['tag']}: {r['why']}")
        if val["checked"] and len(run.samples) < 5:
            run.sample({"program": it["id"], "goals": it["goals"], "settings_succeeded": val["settings"]})
    try:
        n, bad = cli_flags()
        run.coverage["cli_flag_combinations"] = n
        for argv, f, got in bad[:3]:
            run.violation(f"cli-flag|{f}", f"command line {argv} leaves settings.{f} = {got}", {"argv": argv})
    except SystemExit:
        run.inconc("cli flags: argument parser exited")
    run.functions = ["settings", "cli.argument_parser:_set_settings", "program.transformer.conditions_to_arithm:ConditionsToArithm", "inputparser.structure_transformer:_transform_categorical",
                     "recurrences.solver.recurrence_solver:RecurrenceSolver (force_cyclic_solver)", "program.transformer.type_inferer:TypeInferer (vs declared types)",
                     "utils.expressions:get_all_roots (numeric options)"]
    run.bounds = {"n_max": N, "settings": [s[0] for s in SETTINGS] + ["declared-types(+disable_type_inference)", "numeric_roots", "numeric_croots", "numeric_roots+eps"],
                  "family": "corpora, repo test benchmarks, generated family", "outside": "n > N; refusals under a setting are permitted by the property and only counted"}
    run.assumptions = ["both closed forms are compared under the same parameter assumptions; denominators non-zero", "numeric-root results are compared numerically at 40 digits (concrete), with an envelope growing by 2^n"]
    run.finish(programs=programs, disagreements_checked=checked, settings_runs=nset, self_mutants_refuted=muts,
               explanation="whenever a goal succeeds under the default and under another setting: one z3 query per n <= N, closed_default(n) != closed_setting(n), over all parameter values")


if __name__ == "__main__":
    main()
