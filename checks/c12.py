"""C12 -- simulation follows the same semantics and laws as the exact analysis.

(Q1/Q2) the real Simulator.execute / simulate and Assignment.evaluate are executed path by path (z3 proxies) on statement
skeletons with stub conditions/assignments over a symbolic state; every path is closed against a 15-line reference
semantics (first matching branch, else, sequencing, guarded assignment with default, state frozen once the guard is
false).  (Q3/Q4) samplers: the real sample() bodies run with the module namespace rebound (float = identity, math.sqrt
symbolic, scipy objects = recording stubs returning an arbitrary value allowed by scipy's documented contract); the
returned value must lie in get_support() and the contract's mean/variance must equal the moments the analysis uses.
(Q5) choice sites and whole trajectories are *validated* on concrete scripted runs (symengine cannot be executed
symbolically): every discrete path of <= 3 iterations with the random sources scripted, against the reference semantics."""
import itertools
import random as pyrandom
import sys
from fractions import Fraction
from vlib import polar_iface  # noqa
from vlib import smt, jobs, families
from vlib.findings import Run
from vlib import pathfork as pf

# ------------------------------------------------------------------ Q1/Q2 interpreter skeleton


def skeletons(quick, seed):
    """statement skeletons: nested lists / ('if', [cond ids], [branches], else|None) / ('asg', target, source, const, cond id|None, default)"""
    rnd = pyrandom.Random(f"c12-{seed}")
    vars_ = ["x", "y", "z"]

    def asg():
        return ("asg", rnd.choice(vars_), rnd.choice(vars_), rnd.choice([1, 2, -1]), rnd.choice([None, None, "g1", "g2", "g3"]), rnd.choice(vars_))

    def block(depth, n):
        out = []
        for _ in range(n):
            if depth < 2 and rnd.random() < 0.45:
                nb = rnd.choice([1, 2, 3])
                conds = [rnd.choice(["g1", "g2", "g3"]) for _ in range(nb)]
                out.append(("if", conds, [block(depth + 1, rnd.choice([1, 2])) for _ in range(nb)], block(depth + 1, 1) if rnd.random() < 0.5 else None))
            else:
                out.append(asg())
        return out
    base = [
        [("if", ["g1", "g2"], [[("asg", "x", "y", 1, None, "x")], [("asg", "x", "z", 1, None, "x"), ("asg", "y", "x", 1, None, "y")]], [("asg", "z", "x", 1, None, "z")])],
        [("asg", "x", "y", 1, "g1", "z"), ("asg", "y", "x", 2, "g2", "y")],
        [("if", ["g1"], [[("if", ["g2"], [[("asg", "x", "x", 1, None, "x")]], [("asg", "x", "x", 2, None, "x")])]], None), ("asg", "y", "x", 0, None, "y")],
        [("if", ["g1", "g1", "g2"], [[("asg", "x", "x", 1, None, "x")], [("asg", "x", "x", 5, None, "x")], [("asg", "y", "y", 1, None, "y")]], None)],
    ]
    n = 12 if quick else 120
    return base + [block(0, rnd.choice([1, 2, 3, 4])) for _ in range(n)]


def build_real(skel, conds):
    """the skeleton as real IfStatem objects with stub conditions / stub assignments"""
    from program.ifstatem import IfStatem
    from program.assignment.assignment import Assignment
    from program.condition import TrueCond

    class BCond(TrueCond):
        def __init__(self, key):
            self.key = key

        def evaluate(self, state):
            return state[self.key] > 0

    class Stub(Assignment):
        def __init__(self, var, src, const, cond, default):
            self.variable = var
            self.src = src
            self.const = const
            self.condition = BCond(cond) if cond else TrueCond()
            self.default = default

        def subs(self, s):
            pass

        def evaluate_right_side(self, state):
            return state[self.src] + self.const

        def get_free_symbols(self, a=True, b=True):
            return set()

        def get_support(self):
            return set()

        def get_moment(self, *a):
            return 0

    def conv(stmts):
        out = []
        for s in stmts:
            if s[0] == "if":
                out.append(IfStatem([BCond(c) for c in s[1]], [conv(b) for b in s[2]], conv(s[3]) if s[3] else None))
            else:
                out.append(Stub(*s[1:]))
        return out
    return conv(skel), BCond


def ref_exec(z3, skel, state):
    """reference semantics over z3 terms: first matching branch / else / sequencing / guarded assignment with default"""
    st = dict(state)
    for s in skel:
        if s[0] == "asg":
            _, var, src, const, cond, default = s
            rhs = st[src] + const
            st[var] = rhs if cond is None else z3.If(st[cond] > 0, rhs, st[default])
        else:
            _, conds, branches, els = s
            results = [ref_exec(z3, b, st) for b in branches]
            res_else = ref_exec(z3, els, st) if els else dict(st)
            new = {}
            for k in st:
                t = res_else[k]
                for c, r in reversed(list(zip(conds, results))):
                    t = z3.If(st[c] > 0, r[k], t)
                new[k] = t
            st = new
    return st


def job_skeleton(item):
    import z3
    import program.assignment.assignment as amod
    from simulation.simulator import Simulator
    skels, iters = item["skels"], item["iters"]
    out = {"records": [], "stats": smt.new_stats(), "paths": 0, "checked": 0, "mutants": 0}
    amod.float = lambda v: v   # module-namespace injection: the float() cast of Assignment.evaluate is the identity on proxies
    keys = ["x", "y", "z", "g1", "g2", "g3"]
    zs = {k: z3.Real(k) for k in keys}
    assume = [z3.And(v >= -1000, v <= 1000) for v in zs.values()]
    for si, skel in enumerate(skels):
        stmts, BCond = build_real(skel, None)
        ref = ref_exec(z3, skel, zs)

        def fn():
            state = {k: pf.SV(v) for k, v in zs.items()}
            return Simulator(1).execute(stmts, state)
        for ctx, res in pf.explore(fn, assume):
            out["paths"] += 1
            if isinstance(res, Exception):
                out["records"].append({"kind": "violation", "key": f"skeleton|{skel}|raises", "tag": f"skeleton{si}", "what": f"Simulator.execute raises {type(res).__name__}: {res} on {skel}", "replay": {"skeleton": str(skel)}})
                continue
            prop = z3.And(*[(res[k].t if isinstance(res[k], pf.SV) else z3.RealVal(res[k])) == ref[k] for k in keys])
            v, model = smt.decide(assume + ctx.pc + [z3.Not(prop)], out["stats"], 20000, tag=f"execute:{si}", keep_sample=(out["checked"] < 2))
            out["checked"] += 1
            if v == "sat":
                out["records"].append({"kind": "cex", "skel": skel, "model": {k: Fraction(model.get(k, 0)) for k in keys}, "mode": "execute"})
            elif v != "unsat":
                out["records"].append({"kind": "inconclusive", "tag": f"execute:{si}", "why": "solver unknown"})
        if out["mutants"] == 0:
            # self-mutant: a reference that takes the LAST matching branch must be refuted on an overlapping if/elif
            m = [("if", ["g1", "g1"], [[("asg", "x", "x", 1, None, "x")], [("asg", "x", "x", 5, None, "x")]], None)]
            ms, _ = build_real(m, None)
            wrong = z3.If(zs["g1"] > 0, zs["x"] + 5, zs["x"])
            found = False
            for ctx, res in pf.explore(lambda: Simulator(1).execute(ms, {k: pf.SV(v) for k, v in zs.items()}), assume):
                mv, _ = smt.decide(assume + ctx.pc + [res["x"].t != wrong], None, 10000)
                found = found or mv == "sat"
            out["mutants"] += 1
            if not found:
                out["records"].append({"kind": "harness", "tag": "skeleton", "why": "self-mutant (last matching branch) not refuted"})
        # simulate: guard + stuttering
        class Prog:
            pass
        P = Prog()
        P.initial = []
        P.loop_guard = BCond("g3")
        P.loop_body = stmts
        if si < item.get("simulate_for", 4):
            states_ref = [dict(zs)]
            for _ in range(iters):
                cur = states_ref[-1]
                nxt = ref_exec(z3, skel, cur)
                states_ref.append({k: z3.If(cur["g3"] > 0, nxt[k], cur[k]) for k in keys})

            def fn2():
                import simulation.simulator as smod

                class NoBar:
                    def __init__(self, *a, **k):
                        pass

                    def next(self):
                        pass

                    def finish(self):
                        pass
                smod.Bar = NoBar
                sim = Simulator(iters)
                orig = sim.execute

                def exec_initial(el, state):
                    if el is P.initial:
                        return {k: pf.SV(v) for k, v in zs.items()}
                    return orig(el, state)
                sim.execute = exec_initial
                smod.SimulationResult = lambda result, goals: result
                return sim.simulate(P, [], 1)
            for ctx, res in pf.explore(fn2, assume):
                out["paths"] += 1
                if isinstance(res, Exception):
                    out["records"].append({"kind": "violation", "key": f"simulate|{skel}|raises", "tag": f"simulate{si}", "what": f"Simulator.simulate raises {type(res).__name__}: {res}", "replay": {"skeleton": str(skel)}})
                    continue
                run_states = res[0]
                props = [z3.BoolVal(len(run_states) == iters + 1)]
                for k_, (got, want) in enumerate(zip(run_states, states_ref)):
                    for key in keys:
                        g = got[key]
                        props.append((g.t if isinstance(g, pf.SV) else z3.RealVal(g)) == want[key])
                v, model = smt.decide(assume + ctx.pc + [z3.Not(z3.And(*props))], out["stats"], 30000, tag=f"simulate:{si}", keep_sample=False)
                out["checked"] += 1
                if v == "sat":
                    out["records"].append({"kind": "cex", "skel": skel, "model": {k: Fraction(model.get(k, 0)) for k in keys}, "mode": "simulate"})
                elif v != "unsat":
                    out["records"].append({"kind": "inconclusive", "tag": f"simulate:{si}", "why": "solver unknown"})
    # replay counterexamples concretely on the real code with floats
    final = []
    for r in out["records"]:
        if r["kind"] != "cex":
            final.append(r)
            continue
        amod.float = float
        stmts, _ = build_real(r["skel"], None)
        st0 = {k: float(v) for k, v in r["model"].items()}
        got = Simulator(1).execute(stmts, dict(st0))
        import z3 as _z3
        ref = ref_exec(_z3, r["skel"], {k: _z3.RealVal(str(v)) for k, v in r["model"].items()})
        want = {k: float(Fraction(str(_z3.simplify(t)))) if _z3.is_rational_value(_z3.simplify(t)) else None for k, t in ref.items()}
        if r["mode"] == "execute" and all(want[k] is not None and abs(got[k] - want[k]) < 1e-9 for k in want):
            final.append({"kind": "harness", "tag": "skeleton", "why": f"counterexample {st0} on {r['skel']} did not replay"})
        else:
            final.append({"kind": "violation", "key": f"{r['mode']}|{r['skel']}", "tag": "skeleton",
                          "what": f"Simulator.{r['mode']} on {r['skel']} from state {st0} yields {got}, reference semantics {want}", "replay": {"skeleton": str(r["skel"]), "state": st0}})
        amod.float = lambda v: v
    out["records"] = final
    return out


# ------------------------------------------------------------------ Q3/Q4 samplers via module-namespace injection

class ParamStub:
    """stands for a symengine parameter that evaluates to a number in the state"""
    is_Number = True
    is_real = True
    is_Integer = False

    def __init__(self, sv):
        self.sv = sv

    def subs(self, state):
        return self

    def simplify(self):
        return self

    def __mul__(self, o):
        return self.sv * o

    __rmul__ = __mul__

    def __add__(self, o):
        return self.sv + o

    __radd__ = __add__


SAMPLERS = {
    # family: (module, class, parameter attributes, scipy object name, contract)
    "Normal": ("program.distribution.normal", "Normal", ["mu", "sigma2"], "norm"),
    "Uniform": ("program.distribution.uniform", "Uniform", ["a", "b"], "uniform"),
    "Exponential": ("program.distribution.exponential", "Exponential", ["lamb"], "expon"),
    "Laplace": ("program.distribution.laplace", "Laplace", ["mu", "b"], "laplace"),
    "Gamma": ("program.distribution.gamma", "Gamma", ["k", "theta"], "gamma"),
    "Beta": ("program.distribution.beta", "Beta", ["a", "b", "scale"], "beta"),
    "Bernoulli": ("program.distribution.bernoulli", "Bernoulli", ["p"], "bernoulli"),
    "TruncNormal": ("program.distribution.truncated_normal", "TruncNormal", ["mu", "sigma2", "a", "b"], "truncnorm"),
}
GRIDS = {"Normal": [["0", "1"], ["1", "4"], ["-2", "1/4"]], "Laplace": [["0", "1"], ["1", "2"], ["-1", "1/2"]], "Gamma": [["1", "1"], ["2", "2"], ["3", "1/2"]],
         "Beta": [["1", "1", "1"], ["2", "3", "1"], ["2", "2", "3"]]}


def job_sampler(fam):
    import importlib
    import z3
    from vlib.lang import expr2q
    from vlib.qpoly import QPoly
    modname, clsname, attrs, scipy_name = SAMPLERS[fam]
    out = {"records": [], "stats": smt.new_stats(), "paths": 0, "checked": 0, "mutants": 0}
    mod = importlib.import_module(modname)
    cls = getattr(mod, clsname)
    zp = {a: z3.Real(f"p_{a}") for a in attrs}
    val = z3.Real("drawn")
    side = []
    calls = []

    class MathShim:
        @staticmethod
        def sqrt(x):
            r = z3.Real("sqrt_arg")
            side.extend([r >= 0, r * r == x.t])
            return pf.SV(r)

    def arg(v):
        return v.t if isinstance(v, pf.SV) else z3.RealVal(str(Fraction(repr(float(v)))))

    class Scipy:
        """recording stub: returns an arbitrary value; the contract (support, mean, variance) is attached by the caller"""
        @staticmethod
        def rvs(*a, **kw):
            calls.append(([arg(x) for x in a], {k: arg(v) for k, v in kw.items()}))
            return pf.SV(val)
    # module-namespace injection (mode M): no change to /repo
    mod.float = lambda v: (v.sv if isinstance(v, ParamStub) else v)
    mod.math = MathShim
    mod.sympify = lambda x: x
    setattr(mod, scipy_name, Scipy)
    d = cls.__new__(cls)
    for a in attrs:
        setattr(d, a, ParamStub(pf.SV(zp[a])))
    admissible = {"Normal": [zp.get("sigma2", 1) > 0], "Uniform": [zp.get("a", 0) < zp.get("b", 1)], "Exponential": [zp.get("lamb", 1) > 0],
                  "Laplace": [zp.get("b", 1) > 0], "Gamma": [zp.get("k", 1) > 0, zp.get("theta", 1) > 0], "Beta": [zp.get("a", 1) > 0, zp.get("b", 1) > 0, zp.get("scale", 1) > 0],
                  "Bernoulli": [zp.get("p", 0) >= 0, zp.get("p", 0) <= 1], "TruncNormal": [zp.get("sigma2", 1) > 0, zp.get("a", 0) < zp.get("b", 1)]}[fam]
    results = []
    for ctx, res in pf.explore(lambda: d.sample({}), admissible):
        out["paths"] += 1
        results.append((list(ctx.pc), res))
    if len(results) != 1 or isinstance(results[0][1], Exception) or len(calls) < 1:
        out["records"].append({"kind": "inconclusive", "tag": f"sampler:{fam}", "why": f"sample() did not run symbolically: {results[0][1] if results else 'no path'}"[:160]})
        return out
    pc, ret = results[0]
    a, kw = calls[0]
    rett = ret.t if isinstance(ret, pf.SV) else None
    loc = kw.get("loc", z3.RealVal(0))
    scale = kw.get("scale", z3.RealVal(1))
    # scipy's documented contracts
    if fam == "Normal":
        contract, mean, var = [], loc, scale * scale
    elif fam == "Uniform":
        contract, mean, var = [val >= loc, val <= loc + scale], loc + scale / 2, scale * scale / 12
    elif fam == "Exponential":
        contract, mean, var = [val >= loc], loc + scale, scale * scale
    elif fam == "Laplace":
        contract, mean, var = [], loc, 2 * scale * scale
    elif fam == "Gamma":
        contract, mean, var = [val >= loc], loc + a[0] * scale, a[0] * scale * scale
    elif fam == "Beta":
        contract, mean, var = [val >= loc, val <= loc + scale], None, None
    elif fam == "Bernoulli":
        contract, mean, var = [z3.Or(val == 0, val == 1)], a[0], a[0] * (1 - a[0])
    else:  # truncnorm.rvs(a, b, loc, scale): support [loc + a*scale, loc + b*scale]  (a, b in standard units)
        contract, mean, var = [val >= loc + a[0] * scale, val <= loc + a[1] * scale], None, None
    base = admissible + side + pc
    # Q3: the returned value lies in the declared support
    sup_lo, sup_hi = {"Normal": (None, None), "Laplace": (None, None), "Uniform": (zp.get("a"), zp.get("b")), "Exponential": (z3.RealVal(0), None), "Gamma": (z3.RealVal(0), None),
                      "Beta": (z3.RealVal(0), zp.get("scale")), "Bernoulli": (z3.RealVal(0), z3.RealVal(1)), "TruncNormal": (zp.get("a"), zp.get("b"))}[fam]
    # the declared support is read from the real get_support() on a numeric instance below; symbolic bounds above mirror its shape
    outside = []
    if sup_lo is not None:
        outside.append(rett < sup_lo)
    if sup_hi is not None:
        outside.append(rett > sup_hi)
    if outside:
        v, model = smt.decide(base + contract + [z3.Or(*outside)], out["stats"], 30000, tag=f"sampler:{fam}:support")
        out["checked"] += 1
        mv, _ = smt.decide(base + contract, None, 10000)
        out["mutants"] += 1
        if mv != "sat":
            out["records"].append({"kind": "harness", "tag": f"sampler:{fam}", "why": "contract and admissibility are contradictory"})
        if v == "sat":
            out["records"].append({"kind": "cex-support", "fam": fam, "model": {k: Fraction(v_) for k, v_ in model.items() if not isinstance(v_, bool)},
                                   "args": f"{scipy_name}.rvs({', '.join(map(str, a))}{', ' if a and kw else ''}{', '.join(f'{k}={v_}' for k, v_ in kw.items())})"})
        elif v != "unsat":
            out["records"].append({"kind": "inconclusive", "tag": f"sampler:{fam}:support", "why": "solver unknown"})
    # Q4: law -- mean / variance implied by the arguments equal the analysis' moments
    if mean is not None:
        from program.distribution import distribution_factory
        fname = {"Exponential": "DistExp"}.get(fam, fam)
        if fam in ("Bernoulli", "Uniform", "Exponential"):
            names = {"Bernoulli": ["p_p"], "Uniform": ["p_a", "p_b"], "Exponential": ["p_lamb"]}[fam]
            real = distribution_factory(fname, names)
            zenv = lambda n: z3.Real(n)  # noqa
            sd = []
            m1 = expr2q(real.get_moment(1)).to_z3(zenv, sd)
            m2 = expr2q(real.get_moment(2)).to_z3(zenv, sd)
            cons = base + [s[2] for s in sd]
            for what, lhs, rhs in (("mean", mean, m1), ("variance", var, m2 - m1 * m1)):
                v, model = smt.decide(cons + [lhs != rhs], out["stats"], 30000, tag=f"sampler:{fam}:{what}")
                out["checked"] += 1
                if v == "sat":
                    out["records"].append({"kind": "violation", "key": f"sampler|{fam}|{what}", "tag": f"sampler:{fam}",
                                           "what": f"{fam}.sample passes {scipy_name}.rvs arguments whose {what} differs from the moments used by the analysis at {model}", "replay": {"family": fam}})
                elif v != "unsat":
                    out["records"].append({"kind": "inconclusive", "tag": f"sampler:{fam}:{what}", "why": "solver unknown"})
        else:
            for ps in GRIDS.get(fam, []):
                real = distribution_factory(fname, ps)
                sub = [(zp[a_], z3.RealVal(p)) for a_, p in zip(attrs, ps)]
                m1 = expr2q(real.get_moment(1)).cval()
                m2 = expr2q(real.get_moment(2)).cval()
                for what, lhs, rhs in (("mean", mean, m1), ("variance", var, m2 - m1 * m1)):
                    l2 = z3.substitute(lhs, *sub)
                    sd2 = [z3.substitute(s, *sub) for s in side]
                    v, model = smt.decide(sd2 + [l2 != z3.RealVal(str(rhs))], out["stats"], 20000, tag=f"sampler:{fam}{ps}:{what}", keep_sample=False)
                    out["checked"] += 1
                    if v == "sat":
                        out["records"].append({"kind": "violation", "key": f"sampler|{fam}|{what}|{ps}", "tag": f"sampler:{fam}",
                                               "what": f"{fam}({', '.join(ps)}).sample: {what} implied by the {scipy_name}.rvs arguments differs from the analysis' value {rhs}", "replay": {"family": fam, "params": ps}})
    # replay support counterexamples against the real sampler with real scipy (fresh import of the module)
    final = []
    for r in out["records"]:
        if r["kind"] != "cex-support":
            final.append(r)
            continue
        import importlib as il
        import numpy as np
        mm = il.import_module(modname)
        if "float" in mm.__dict__:
            del mm.__dict__["float"]
        m2 = il.reload(mm)
        rcls = getattr(m2, clsname)
        vals = r["model"]
        ps = [str(vals.get(f"p_{a_}", Fraction(1))) for a_ in attrs]
        try:
            dd = rcls(ps)
            np.random.seed(12345)
            draws = [float(dd.sample({})) for _ in range(400)]
            sup = dd.get_support()
            lo, hi = None, None
            for el in sup:
                if isinstance(el, tuple):
                    lo, hi = float(el[0]), float(el[1])
            bad = [x for x in draws if (lo is not None and x < lo - 1e-9) or (hi is not None and x > hi + 1e-9)]
        except Exception as e:  # noqa
            final.append({"kind": "inconclusive", "tag": f"sampler:{fam}", "why": f"replay failed {type(e).__name__}: {e}"[:140]})
            continue
        if bad:
            final.append({"kind": "violation", "key": f"sampler|{fam}|support", "tag": f"sampler:{fam}",
                          "what": f"{fam}({', '.join(ps)}).sample calls {r['args']}; {len(bad)} of 400 real draws (e.g. {bad[0]:.4g}) lie outside the declared support [{lo}, {hi}]",
                          "replay": {"family": fam, "params": ps, "example": bad[0], "call": r["args"]}})
        else:
            final.append({"kind": "inconclusive", "tag": f"sampler:{fam}", "why": f"contract-level counterexample at {ps} did not show in 400 real draws"})
    out["records"] = final
    return out


# ------------------------------------------------------------------ Q5 concrete scripted trajectories

def job_trajectories(item):
    """every discrete path of <= K iterations with scripted random sources: real Simulator vs reference semantics"""
    import random
    from vlib.lang import parse_text, LangError, Assign, If, Simult
    from vlib.qpoly import QPoly
    from vlib.sem import Interp, Unsupported
    pid, text, K = item["id"], item["text"], item["K"]
    out = {"records": [], "stats": smt.new_stats(), "paths": 0, "checked": 0, "mutants": 0, "validated": 0, "refusals": []}
    try:
        prog = parse_text(text)
    except LangError:
        return out
    try:
        polar_iface.set_settings()
        program = polar_iface.parse(text)
    except Exception as e:
        out["refusals"].append({"id": pid, **polar_iface.exc_info(e)})
        return out
    from simulation.simulator import Simulator
    import simulation.simulator as smod

    class NoBar:
        def __init__(self, *a, **k):
            pass

        def next(self):
            pass

        def finish(self):
            pass
    smod.Bar = NoBar
    smod.SimulationResult = lambda result, goals: result
    import scipy.stats as st
    script = []
    pos = [0]
    log = []

    def decide(n_options, weights=None):
        if pos[0] < len(script):
            c = script[pos[0]]
        else:
            c = 0
            script.append(0)
        pos[0] += 1
        log.append((n_options, weights))
        return c
    orig_choices, orig_choice = random.choices, random.choice

    def choices(pop, weights=None, k=1):
        pop = list(pop)
        opts = [i for i in range(len(pop)) if weights is None or weights[i] > 0]
        if len(opts) == 1:
            return [pop[opts[0]]]   # no genuine choice: does not consume the script
        i = decide(len(opts), [weights[j] for j in opts] if weights else None)
        return [pop[opts[i]]]

    def choice(seq):
        seq = list(seq)
        if len(seq) == 1:
            return seq[0]
        return seq[decide(len(seq), None)]
    cont_vals = [0.5, 1.25, -0.75, 2.0]
    cont_pos = [0]

    def cont(*a, **k):
        v = cont_vals[cont_pos[0] % len(cont_vals)]
        cont_pos[0] += 1
        return v
    patched = []
    for name in ("norm", "uniform", "expon", "laplace", "gamma", "beta", "truncnorm"):
        obj = getattr(st, name)
        patched.append((obj, obj.rvs))
    bern = st.bernoulli
    orig_bern = bern.rvs

    def bern_rvs(p, *a, **k):
        opts = [v for v, w in ((1, p), (0, 1 - p)) if w > 0]
        return opts[0] if len(opts) == 1 else opts[decide(len(opts), [w for v, w in ((1, p), (0, 1 - p)) if w > 0])]
    rlog = []  # probabilities of the options at every genuine decision of the reference run

    # reference executor over the own reading of the text, same scripted sources
    def ref_run(script_ref):
        rpos = [0]
        cpos = [0]

        def rdecide(n_opts=2, probs=None):
            if n_opts == 1:
                return 0
            c = script_ref[rpos[0]] if rpos[0] < len(script_ref) else 0
            rpos[0] += 1
            rlog.append(probs)
            return c
        I = Interp(prog)

        def evalq(q, env):
            v = I.val(env, q)
            if not v.is_const():
                raise Unsupported("non-constant value in concrete run")
            return v.cval()

        def cond(c, env):
            r = I.cond(c, env, None)
            if not isinstance(r, bool):
                raise Unsupported("symbolic condition")
            return r

        def run_assign(a, env, read):
            from vlib import distref
            if not cond(a.cond, read):
                env[a.var] = read.get(a.default, QPoly.var(a.default + "0"))
                return
            if a.kind == "choice":
                if len(a.payload) == 1:
                    env[a.var] = QPoly.const(evalq(a.payload[0][0], read))
                else:
                    vals = [(evalq(v, read), evalq(p, read)) for v, p in a.payload]
                    opts = [v for v, p in vals if p > 0]
                    env[a.var] = QPoly.const(opts[rdecide(len(opts), [p for v, p in vals if p > 0])])
            elif a.kind == "dist":
                fam, params = a.payload
                params = [QPoly.const(evalq(q, read)) for q in params]
                if fam in distref.DISCRETE:
                    oc = [(v, p) for v, p in distref.discrete_outcomes(fam, params)]
                    pr = None
                    if fam == "Bernoulli":
                        opts = [v for v, p in oc if p.cval() > 0]
                        pr = [p.cval() for v, p in oc if p.cval() > 0]
                    elif fam == "Categorical":
                        opts = [v for v, p in oc if p.cval() > 0]
                        pr = [p.cval() for v, p in oc if p.cval() > 0]
                    else:
                        opts = [v for v, p in oc]
                    env[a.var] = opts[rdecide(len(opts), pr)]
                else:
                    env[a.var] = QPoly.const(Fraction(str(cont_vals[cpos[0] % len(cont_vals)])))
                    cpos[0] += 1
            else:
                raise Unsupported("functional")

        def run(stmts, env):
            for s in stmts:
                if isinstance(s, If):
                    done = False
                    for c, b in zip(s.conds, s.branches):
                        if cond(c, env):
                            run(b, env)
                            done = True
                            break
                    if not done and s.else_branch:
                        run(s.else_branch, env)
                elif isinstance(s, Simult):
                    old = dict(env)
                    for a in s.assigns:
                        run_assign(a, env, old)
                else:
                    run_assign(s, env, env)
        env = {}
        rlog.clear()
        run(prog.initial, env)
        states = [dict(env)]
        for _ in range(K):
            if cond(prog.guard, env):
                run(prog.body, env)
            states.append(dict(env))
        return states
    try:
        random.choices, random.choice = choices, choice
        for obj, _ in patched:
            obj.rvs = cont
        bern.rvs = bern_rvs
        n = 0
        while n < item.get("max_paths", 300):
            pos[0] = 0
            cont_pos[0] = 0
            log.clear()
            try:
                res = Simulator(K).simulate(program, [], 1)[0]
            except Exception as e:
                out["refusals"].append({"id": pid, **polar_iface.exc_info(e)})
                break
            used = list(script[:pos[0]])
            # several samples in one call / several calls in one process: every run owns its states.  The same script is
            # replayed with two samples; the first run of that call must be the run just obtained, and the run just obtained
            # must not change while later samples are drawn (no state shared between runs or calls)
            if n < 6:
                frozen = [{str(k_): float(v_) for k_, v_ in st_.items()} for st_ in res]
                keep_script, keep_log, keep_pos, keep_cont = list(script), list(log), pos[0], cont_pos[0]
                pos[0] = 0
                cont_pos[0] = 0
                try:
                    two = Simulator(K).simulate(program, [], 2)
                    again = [{str(k_): float(v_) for k_, v_ in st_.items()} for st_ in two[0]]
                    now = [{str(k_): float(v_) for k_, v_ in st_.items()} for st_ in res]
                    out["checked"] += 2
                    if again != frozen or now != frozen:
                        which = "the first of two samples differs from the single sample drawn with the same random choices" if again != frozen else \
                            "a finished run changed while later samples were drawn"
                        out["records"].append({"kind": "violation", "key": f"run-isolation|{pid}", "tag": pid,
                                               "what": f"simulation of {pid} with scripted choices {used}: {which} (states {frozen[:2]} vs {(again if again != frozen else now)[:2]})",
                                               "replay": {"text": text, "script": used}})
                        break
                except Exception as e:  # noqa
                    out["records"].append({"kind": "inconclusive", "tag": pid, "why": f"two-sample run: {type(e).__name__} {e}"[:120]})
                finally:
                    script[:] = keep_script
                    log[:] = keep_log
                    pos[0], cont_pos[0] = keep_pos, keep_cont
            try:
                want = ref_run(used)
            except (Unsupported, ZeroDivisionError, KeyError, IndexError) as e:
                out["records"].append({"kind": "inconclusive", "tag": pid, "why": f"reference run: {type(e).__name__} {e}"[:120]})
                break
            n += 1
            out["validated"] += 1
            bad = None
            for k_, (g, w) in enumerate(zip(res, want)):
                for var, q in w.items():
                    if not q.is_const():
                        continue
                    key = [s for s in g if str(s) == var]
                    if not key:
                        bad = (k_, var, "missing", float(q.cval()))
                        break
                    if abs(float(g[key[0]]) - float(q.cval())) > 1e-9 * (1 + abs(float(q.cval()))):
                        bad = (k_, var, float(g[key[0]]), float(q.cval()))
                        break
                if bad:
                    break
            if not bad and len(rlog) == len(log):
                # the weights handed to the random source at every decision are the probabilities of the semantics
                for di, ((_, w), pr) in enumerate(zip(log, rlog)):
                    if w is None or pr is None or len(w) != len(pr):
                        continue
                    tw = float(sum(w))
                    if tw <= 0:
                        continue
                    out["checked"] += 1
                    if any(abs(float(a) / tw - float(b)) > 1e-9 for a, b in zip(w, pr)):
                        out["records"].append({"kind": "violation", "key": f"weights|{pid}", "tag": pid,
                                               "what": f"simulated run of {pid} with scripted choices {used}: decision #{di} draws with weights {[round(float(a) / tw, 6) for a in w]}, "
                                                       f"the semantics gives probabilities {[str(b) for b in pr]}",
                                               "replay": {"text": text, "script": used, "decision": di}})
                        bad = "weights"
                        break
                if bad:
                    break
            if bad:
                out["records"].append({"kind": "violation", "key": f"trajectory|{pid}", "tag": pid,
                                       "what": f"simulated trajectory of {pid} with scripted random choices {used}: after iteration {bad[0]} variable {bad[1]} is {bad[2]}, reference semantics {bad[3]}",
                                       "replay": {"text": text, "script": used, "iteration": bad[0], "variable": bad[1]}})
                break
            # next script (DFS over the recorded option counts)
            script[:] = used
            while script and script[-1] + 1 >= log[len(script) - 1][0]:
                script.pop()
            if not script:
                break
            script[-1] += 1
    finally:
        random.choices, random.choice = orig_choices, orig_choice
        for obj, f in patched:
            obj.rvs = f
        bern.rvs = orig_bern
    return out


def main():
    run = Run("C12", "other")
    work = []
    sk = skeletons(run.quick, run.seed)
    for i in range(0, len(sk), 4):
        work.append((job_skeleton, {"skels": sk[i:i + 4], "iters": 3, "simulate_for": 2 if run.quick else 4}, f"skeleton/{i}"))
    for fam in SAMPLERS:
        work.append((job_sampler, fam, f"sampler/{fam}"))
    progs = families.corpus() + families.corpus("corpus_class") + families.generated(run.quick, run.seed, count=(30 if run.quick else 300))
    for pid, text, goals in progs:
        work.append((job_trajectories, {"id": pid, "text": text, "K": 2 if run.quick else 3, "max_paths": 150 if run.quick else 600}, f"trajectory/{pid}"))
    # choices / draws whose probabilities depend on the (changing) state: the weights have to be read in every draw
    for pid, text, goals in families.corpus("corpus_sim"):
        work.append((job_trajectories, {"id": pid, "text": text, "K": 4, "max_paths": 300}, f"trajectory/{pid}"))
    if run.args.only:
        work = [w for w in work if run.args.only in w[2]]

    def dispatch(i):
        f, arg, _ = work[i]
        return f(arg)
    results = jobs.run_jobs(dispatch, [(i,) for i in range(len(work))], timeout=600)
    run.notes.append({"slowest_jobs": jobs.slowest(work, lambda w: w[2])})
    checked = paths = muts = validated = groups = 0
    for (f, arg, name), (st, val) in zip(work, results):
        if st != "ok":
            run.job_failed(name, st, val)
            continue
        run.add_stats(val["stats"])
        checked += val["checked"]
        paths += val.get("paths", 0)
        muts += val.get("mutants", 0)
        validated += val.get("validated", 0)
        groups += 1 if (val["checked"] or val.get("validated")) else 0
        for r in val.get("refusals", []):
            run.refusal(r)
        for r in val["records"]:
            if r["kind"] == "violation":
                run.violation(r["key"], r["what"], r["replay"])
            elif r["kind"] == "harness":
                run.harness_error(f"{r['tag']}: {r['why']}")
            else:
                run.inconc(f"{r['tag']}: {r['why']}")
    run.sample({"skeleton": str(sk[0]), "samplers": list(SAMPLERS), "trajectory_programs": [p[0] for p in progs[:6]]})
    run.functions = ["simulation.simulator:Simulator.simulate/execute", "program.assignment.assignment:Assignment.evaluate", "program.distribution.*:sample (module namespace rebound)",
                     "program.assignment.poly_assignment:PolyAssignment.evaluate_right_side, program.condition.*:evaluate, utils.conditions:evaluate_cop (concrete scripted validation)"]
    run.bounds = {"skeletons": f"{len(sk)} statement skeletons (<= 3 branches, nesting <= 2, <= 4 statements) over a symbolic 6-variable state; simulate() for 3 iterations on the first skeletons",
                  "samplers": "8 families; parameters symbolic (all admissible values); the drawn value is an arbitrary value allowed by scipy's documented contract",
                  "trajectories": f"{len(progs)} programs, every discrete path of <= {2 if run.quick else 3} iterations (capped), continuous draws scripted -- concrete validation, not a solver verdict",
                  "outside": "numeric evaluation of conditions and polynomials through symengine.subs/float (C extension) is only validated concretely; whole-trajectory laws"}
    run.assumptions = ["scipy's documented contracts (support, mean, variance of norm/uniform/expon/laplace/gamma/beta/bernoulli/truncnorm) are the stubs' behaviour",
                       "floats are modelled as reals in the interpreter skeleton; float() is rebound to the identity in program.assignment.assignment during the check"]
    run.coverage["paths_closed"] = paths
    run.coverage["traces_validated_against_impl"] = validated
    run.finish(explanation="per-path symbolic execution (z3 proxies) of the real Simulator / Assignment.evaluate closed against a reference semantics; samplers executed with rebound module namespaces and checked against scipy's contracts by z3; trajectories validated on concrete scripted runs",
               evaluations=checked + validated, distinct_nontrivial=groups, rule="skeleton batches, sampler families and programs with at least one closed path / validated trajectory", self_mutants_refuted=muts)


if __name__ == "__main__":
    main()
