"""C03 -- moment recurrences are exact one-step identities (arbitrary typed pre-state => all n) and closed."""
import sys
import time
from fractions import Fraction
from vlib import polar_iface  # noqa
from vlib import smt, jobs, families
from vlib.findings import Run
from vlib.qpoly import QPoly
from vlib.lang import parse_text, read_polar, expr2q, read_cond, LangError, arith
from vlib.sem import Unsupported, Interp, assumptions_for_program
from vlib.onestep import one_iteration, type_constraints
from vlib import momentcheck as mc


def cond_z3(I, c, env, path=None):
    from vlib.sem import Path
    r = I.cond(c, env, path or Path(env))
    import z3
    return z3.BoolVal(r) if isinstance(r, bool) else r


def job(item):
    import z3
    import sympy as sp
    from symengine import sympify as se_sympify
    from recurrences import RecBuilder
    from program.type import Finite
    pid, text, goals = item["id"], item["text"], item["goals"]
    out = {"id": pid, "records": [], "stats": smt.new_stats(), "refusals": [], "skipped": None, "checked": 0, "monomials": 0,
           "kernels": 0, "mutants": 0}
    try:
        src = parse_text(text)
    except LangError as e:
        out["skipped"] = f"own reader: {e}"
        return out
    if goals == ["@vars"]:
        goals = sorted(v for v in src.assigned_vars() if not v.startswith("_"))[:3]
    try:
        with polar_iface.time_limit(60):
            program = polar_iface.normalized(text, **item.get("opts", {}))
    except polar_iface.JobTimeout:
        out["refusals"].append({"id": pid, "stage": "normalize", "type": "Timeout", "msg": "", "where": ""})
        return out
    except Exception as e:
        out["refusals"].append({"id": pid, "stage": "normalize", **polar_iface.exc_info(e)})
        return out
    try:
        norm = read_polar(program)
    except NotImplementedError as e:
        out["skipped"] = f"reader of Polar objects: {e}"
        return out
    rb = RecBuilder(program)
    system = {}
    inits = {}
    recs = []
    for g in goals:
        try:
            with polar_iface.time_limit(item.get("goal_timeout", 40)):
                R = rb.get_recurrences(se_sympify(g))
        except polar_iface.JobTimeout:
            out["refusals"].append({"id": pid, "goal": g, "type": "Timeout", "msg": "get_recurrences", "where": ""})
            continue
        except Exception as e:
            out["refusals"].append({"id": pid, "goal": g, **polar_iface.exc_info(e)})
            continue
        recs.append((g, R))
        for m, rhs in R.recurrence_dict.items():
            system[str(m)] = (m, rhs)
            inits[str(m)] = R.init_values_dict[m]
    if not system:
        return out
    # ---- one iteration of the normalised program from an arbitrary typed pre-state
    try:
        I, paths = one_iteration(norm, max_paths=item.get("max_paths", 6000))
    except (Unsupported, ZeroDivisionError) as e:
        out["skipped"] = f"oracle: {e}"
        return out
    consts = {str(s) for s in program.symbols}
    base = list(I.solver.assertions())
    keys = sorted(system)[: item.get("max_monomials", 40)]
    out["monomials"] = len(keys)
    for j, key in enumerate(keys):
        m, rhs = system[key]
        tag = f"{pid}:{key}"
        try:
            mq = expr2q(m)
            rq = expr2q(rhs)
            groups = I.expect_monomial(paths, mq)
        except (Unsupported, NotImplementedError, ZeroDivisionError) as e:
            out["records"].append({"kind": "inconclusive", "tag": tag, "why": f"{type(e).__name__}: {e}"[:160]})
            continue
        side = []
        lhs = I.to_z3(groups, side)
        rz = rq.to_z3(I.zv, side)
        cons = base + [s[2] for s in side]
        v, model = smt.decide(cons + [lhs != rz], out["stats"], item.get("q_timeout", 60000), tag=tag + ":step", xcheck=item.get("xcheck", False) and j == 0)
        out["checked"] += 1
        if j == 0:
            mv, _ = smt.decide(cons + [lhs != rz + 1], None, 20000)
            out["mutants"] += 1
            if mv != "sat":
                out["records"].append({"kind": "harness", "tag": tag, "why": f"self-mutant (rhs + 1) not refuted: {mv}"})
        if v == "unknown":
            out["records"].append({"kind": "inconclusive", "tag": tag + ":step", "why": "solver unknown/timeout"})
        elif v == "sat":
            # replay exactly at the model's pre-state; then require the pre-state to be reachable
            names = set(I.z)
            vals = mc.sym_values(model, names)
            try:
                I2, p2 = one_iteration(norm, param_vals=vals, max_paths=60000)
                ov = Fraction(0)
                for pc, q in I2.expect_monomial(p2, mq):
                    if pc:
                        raise Unsupported("symbolic branch in concrete replay")
                    ov += q.evalq(vals)
                pv = rq.evalq(vals)
            except Exception as e:  # noqa
                out["records"].append({"kind": "inconclusive", "tag": tag, "why": f"replay failed: {type(e).__name__} {e}"[:200]})
                continue
            if ov == pv:
                out["records"].append({"kind": "harness", "tag": tag, "why": "model did not replay"})
                continue
            pre = {k: str(vals[k]) for k in sorted(I.vars) if k in vals}
            reach = reachable(src, norm, program, vals, item.get("reach_k", 6))
            rec = {"key": f"{pid}|{key}", "tag": tag,
                   "what": f"recurrence of E({key}): one-step expectation from pre-state {pre} is {ov}, recurrence right-hand side {rhs} gives {pv}",
                   "replay": {"text": text, "monomial": key, "rhs": str(rhs), "pre_state": pre, "values": {k: str(x) for k, x in vals.items()},
                              "exact": str(ov), "recurrence": str(pv), "reachable": reach}}
            if reach is True:
                rec["kind"] = "violation"
            else:
                rec["kind"] = "inconclusive"
                rec["why"] = f"counterexample pre-state {pre} not shown reachable within the bound ({reach}); invariant of the step query too weak, not a finding"
            out["records"].append(rec)
    # ---- initial values
    try:
        I0 = Interp(norm)
        for c in assumptions_for_program(norm, I0):
            I0.assume(c)
        p0 = I0.run_initial()
        for key in keys:
            m, _ = system[key]
            tag = f"{pid}:{key}:init"
            groups = I0.expect_monomial(p0, expr2q(m))
            side = []
            lhs = I0.to_z3(groups, side)
            rz = expr2q(inits[key]).to_z3(I0.zv, side)
            v, model = smt.decide(list(I0.solver.assertions()) + [s[2] for s in side] + [lhs != rz], out["stats"], 30000, tag=tag, keep_sample=False)
            out["checked"] += 1
            if v == "sat":
                vals = mc.sym_values(model, set(I0.z))
                I1 = Interp(norm, param_vals=vals)
                ov = sum((q.evalq(vals) for pc, q in I1.expect_monomial(I1.run_initial(), expr2q(m))), Fraction(0))
                pv = expr2q(inits[key]).evalq(vals)
                if ov != pv:
                    out["records"].append({"kind": "violation", "key": f"{pid}|{key}|init", "tag": tag,
                                           "what": f"initial value of E({key}) recorded as {inits[key]} = {pv}, exact {ov} at {dict((k, str(x)) for k, x in vals.items())}",
                                           "replay": {"text": text, "monomial": key, "recorded": str(inits[key]), "values": {k: str(x) for k, x in vals.items()}}})
                else:
                    out["records"].append({"kind": "harness", "tag": tag, "why": "init model did not replay"})
            elif v != "unsat":
                out["records"].append({"kind": "inconclusive", "tag": tag, "why": "solver unknown"})
    except (Unsupported, NotImplementedError, ZeroDivisionError) as e:
        out["records"].append({"kind": "inconclusive", "tag": f"{pid}:init", "why": f"{type(e).__name__}: {e}"[:160]})
    # ---- closure and matrix rows
    from utils import get_monoms
    for g, R in recs:
        keyset = set(R.recurrence_dict)
        for m, rhs in R.recurrence_dict.items():
            import symengine
            for _, mon in get_monoms(symengine.sympify(rhs), constant_symbols=program.symbols):
                if sp.sympify(mon) not in keyset:
                    out["records"].append({"kind": "violation", "key": f"{pid}|{g}|closure", "tag": f"{pid}:{g}",
                                           "what": f"system for E({g}) is not closed: monomial {mon} occurs in the recurrence of {m} but has no equation",
                                           "replay": {"text": text, "goal": g, "monomial": str(mon)}})
        try:
            mons = list(R.monomials)
            vec = [expr2q(x) for x in mons] + ([QPoly.const(1)] if R.is_inhomogeneous else [])
            for i, m in enumerate(mons[:12]):
                row = QPoly()
                for j in range(len(vec)):
                    c = R.recurrence_matrix[i, j]
                    if c != 0:
                        row = row + expr2q(c) * vec[j]
                diff = row - expr2q(R.recurrence_dict[m])
                side = []
                dz = diff.to_z3(I.zv, side)
                v, _ = smt.decide([s[2] for s in side] + [dz != 0], out["stats"], 20000, tag=f"{pid}:{g}:row{i}", keep_sample=False)
                out["checked"] += 1
                if v == "sat":
                    out["records"].append({"kind": "violation", "key": f"{pid}|{g}|matrix-row|{m}", "tag": f"{pid}:{g}",
                                           "what": f"matrix row of {m} does not reproduce its recurrence: row gives {row!r}, recurrence {R.recurrence_dict[m]}",
                                           "replay": {"text": text, "goal": g, "monomial": str(m)}})
        except (NotImplementedError, Exception) as e:  # noqa
            out["records"].append({"kind": "inconclusive", "tag": f"{pid}:{g}:matrix", "why": f"{type(e).__name__}: {e}"[:160]})
    # ---- kernels: indicator polynomials and power reduction on the types
    try:
        from vlib.sem import Path
        env = {v: QPoly.var(v) for v in sorted(I.vars)}
        tc = type_constraints(norm, I)
        seen = set()
        for a in program.loop_body:
            cs = str(a.condition)
            if cs in seen or cs == "true":
                continue
            seen.add(cs)
            try:
                ar = a.condition.to_arithm(program)
            except Exception as e:
                out["records"].append({"kind": "inconclusive", "tag": f"{pid}:to_arithm({cs})", "why": f"{type(e).__name__}"})
                continue
            side = []
            az = expr2q(ar).to_z3(I.zv, side)
            cz = cond_z3(I, read_cond(a.condition), env)
            v, model = smt.decide(tc + [s[2] for s in side] + [az != z3.If(cz, z3.RealVal(1), z3.RealVal(0))], out["stats"], 20000,
                                  tag=f"{pid}:indicator({cs})", keep_sample=False)
            out["kernels"] += 1
            if v == "sat":
                out["records"].append({"kind": "violation", "key": f"{pid}|indicator|{cs}", "tag": pid,
                                       "what": f"indicator polynomial {ar} of condition {cs} is not its indicator on the types at {dict((k, str(x)) for k, x in model.items())}",
                                       "replay": {"text": text, "condition": cs, "arithm": str(ar), "values": {k: str(x) for k, x in model.items()}}})
        for var in program.finite_variables:
            t = program.get_type(var)
            vals = [expr2q(x) for x in t.values]
            if not all(q.is_const() for q in vals):
                continue
            x = I.zv(str(var))
            dom = z3.Or(*[x == z3.RealVal(str(q.cval())) for q in vals])
            for p in range(1, 7):
                red = t.reduce_power(p)
                rz = expr2q(red).to_z3(I.zv) if not isinstance(red, int) else z3.RealVal(red)
                pw = z3.RealVal(1)
                for _ in range(p):
                    pw = pw * x
                v, model = smt.decide([dom, rz != pw], out["stats"], 20000, tag=f"{pid}:reduce_power({var},{p})", keep_sample=False)
                out["kernels"] += 1
                if v == "sat":
                    out["records"].append({"kind": "violation", "key": f"{pid}|reduce_power|{var}|{p}", "tag": pid,
                                           "what": f"reduce_power({p}) of {t} gives {red}, which differs from {var}**{p} at {var} = {model.get(str(var))}",
                                           "replay": {"text": text, "variable": str(var), "power": p}})
    except (NotImplementedError, Unsupported) as e:
        out["records"].append({"kind": "inconclusive", "tag": f"{pid}:kernels", "why": f"{type(e).__name__}: {e}"[:160]})
    return out


def reachable(src, norm, program, vals, K):
    """is the finite-typed part of the model's pre-state reached from the initial block within K iterations (exact
    exploration of the normalised program at the model's parameter values)?  Numeric (untyped) variables are compared too
    when the program gives them concrete values."""
    try:
        from vlib.sem import kstep
        typed = sorted(norm.types)
        pvals = {k: v for k, v in vals.items() if k not in Interp(norm).vars}
        target = {v: vals.get(v) for v in typed if v in vals}
        untyped = [v for v in sorted(Interp(norm).vars) if v not in norm.types and v in vals]
        for k, I, paths in kstep(norm, K, param_vals=pvals, max_paths=50000):
            for p in paths:
                ok = True
                for v, tv in target.items():
                    q = I.lookup(p.env, v)
                    if not q.is_const() or q.cval() != tv:
                        ok = False
                        break
                if not ok:
                    continue
                # numeric variables: only a mismatch of concrete values disproves reachability of this exact state
                exact = True
                for v in untyped:
                    q = I.lookup(p.env, v)
                    if q.is_const() and q.cval() != vals[v]:
                        exact = False
                        break
                if exact:
                    return True
        return f"not reached within {K} iterations"
    except Exception as e:  # noqa
        return f"reachability search failed: {type(e).__name__} {e}"[:120]


def build_items(run):
    items = []
    for pid, text, goals in families.corpus():
        items.append({"id": pid, "text": text, "goals": goals})
    for pid, text, goals in families.repo_benchmarks(run.quick, run.seed, limit_quick=12):
        if "defective" in pid or "development" in pid:
            continue
        items.append({"id": pid, "text": text, "goals": goals, "goal_timeout": 20})
    for pid, text, goals in families.generated(run.quick, run.seed, count=(60 if run.quick else 600)):
        items.append({"id": pid, "text": text, "goals": goals, "goal_timeout": 20})
    for pid, text, goals in families.symbolic_templates(run.quick, run.seed):
        items.append({"id": pid, "text": text, "goals": goals, "goal_timeout": 30})
    if run.args.only:
        items = [i for i in items if run.args.only in i["id"]]
    for i, it in enumerate(items):
        it["xcheck"] = (i % 10 == 0)
    return items


def main():
    run = Run("C03", "other")
    items = build_items(run)
    results = jobs.run_jobs(job, items, timeout=300 if run.quick else 600)
    run.notes.append({"slowest_jobs": jobs.slowest(items, lambda it: it["id"])})
    programs = checked = monos = kernels = muts = 0
    for it, (st, val) in zip(items, results):
        if st != "ok":
            run.job_failed(it['id'], st, val)
            continue
        run.add_stats(val["stats"])
        for r in val["refusals"]:
            run.refusal(r)
        if val["skipped"]:
            run.inconc(f"{it['id']}: outside the oracle ({val['skipped']})")
            continue
        if val["checked"]:
            programs += 1
        checked += val["checked"]
        monos += val["monomials"]
        kernels += val["kernels"]
        muts += val["mutants"]
        for r in val["records"]:
            if r["kind"] == "violation":
                run.violation(r["key"], r["what"], r["replay"])
            elif r["kind"] == "harness":
                run.harness_error(f"{r['tag']}: {r['why']}")
            else:
                run.inconc(f"{r['tag']}: {r['why']}")
        if val["checked"] and len(run.samples) < 6:
            run.sample({"program": it["id"], "text": it["text"][:300], "monomials_checked": val["monomials"]})
    run.functions = ["recurrences.rec_builder:RecBuilder.get_recurrences/get_recurrence/_replace_assign/_reduce_powers/get_initial_value",
                     "recurrences.recurrences:Recurrences._init_data", "program.assignment.poly_assignment:PolyAssignment.get_moment",
                     "program.assignment.dist_assignment:DistAssignment.get_moment", "program.condition.*:to_arithm", "program.type.finite:Finite.reduce_power",
                     "utils.finite_power_reduction:get_reduced_powers"]
    run.bounds = {"family": "corpus + repo benchmarks within the oracle + generated family + symbolic templates", "monomials_per_program": "<= 40",
                  "pre_state": "every variable symbolic; typed variables range over their Polar type; all others arbitrary reals => the step identity covers every n",
                  "outside": "functional assignments (C13), TruncNormal, conditions on continuous draws"}
    run.assumptions = ["the finite types Polar holds are sound (C05's obligation)", "probabilities in [0,1], admissible distribution parameters",
                       "a sat pre-state counts only if it is reached from the initial block within 6 iterations (otherwise reported inconclusive)"]
    run.finish(explanation="per monomial of every generated system one z3 query: E[M(post) | arbitrary typed pre-state] != right-hand side; plus initial values, matrix rows, indicator and power-reduction kernels",
               evaluations=checked + kernels, distinct_nontrivial=monos, rule="distinct (program, monomial) pairs whose step identity was decided",
               programs=programs, kernel_queries=kernels, self_mutants_refuted=muts)


if __name__ == "__main__":
    main()
