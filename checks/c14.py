"""C14 -- synthesised invariants and solvable loops agree with the unsolvable loop.

(Q1) for every pair (Q, f) returned by the real synth_inv: E[Q(state_k)] = f(k) for k <= N, for all initial values and
all values of the free coefficients of the solution family -- one z3 query per k against the reference semantics of the
ORIGINAL loop.  (Q3) every synthesised solvable loop (a deterministic program over first moments) takes, for each
retained variable and the fresh combination variable, the values E[var] resp. E[Q] of the original loop at k <= N.
(Q4) the effective/defective classification kernel is C18's solver-decided leg."""
import os
import sys
from fractions import Fraction
from vlib import polar_iface  # noqa
from vlib import smt, jobs
from vlib.findings import Run
from vlib.qpoly import QPoly
from vlib.lang import parse_text, LangError, expr2q, read_polar
from vlib.sem import Unsupported, kstep
from vlib.s2z import Tr, at_n, Untranslatable
from vlib import momentcheck as mc

TESTS = polar_iface.REPO + "/tests/unsolvable_benchmarks/"
DEF = polar_iface.REPO + "/benchmarks/defective/"
CASES = [
    (TESTS + "deg-5.prob", ["x", "y"], 1, None), (TESTS + "fibonaccitrace.prob", ["x", "y", "z"], 3, None), (TESTS + "fibonaccitrace.prob", ["x", "y", "z"], 3, 1),
    (TESTS + "genfibonaccitrace.prob", ["x", "y", "z"], 3, None), (TESTS + "markov-triples-random.prob", ["a", "b", "c"], 3, 1), (TESTS + "markov-triples-toggle.prob", ["a", "b", "c"], 3, 1),
    (TESTS + "nagata.prob", ["x", "y", "z"], 2, 1), (TESTS + "non-lin-markov-1.prob", ["x", "y"], 1, None), (TESTS + "non-lin-markov-1.prob", ["x", "y"], 2, None),
    (TESTS + "squares.prob", ["x", "y"], 1, None), (TESTS + "squares.prob", ["x", "y"], 2, None),
]
CASES_THOROUGH = [
    (DEF + "non-lin-markov-2.prob", ["x", "y"], 1, None), (DEF + "prob-squares.prob", ["x", "y"], 1, None), (DEF + "squares-plus.prob", ["x", "y"], 1, None), (DEF + "intro1.prob", None, 1, None),
    (DEF + "intro2.prob", None, 1, None), (DEF + "deg-6.prob", ["x", "y"], 1, None), (DEF + "squares-and-cube.prob", None, 1, None), (DEF + "pts.prob", None, 1, None),
    (DEF + "fib1.prob", None, 2, 1), (DEF + "bees.prob", None, 1, None), (DEF + "squares-squared.prob", None, 1, None),
]
OWN = os.path.join(os.path.dirname(os.path.dirname(os.path.abspath(__file__))), "corpus_unsolv") + "/"
# own unsolvable loops: an effective variable whose closed form has a transient (listed beginning values), multiplier k = 0
# with an initial value that differs from the extrapolated effective part, symbolic initial values
CASES_OWN = [(OWN + "u01_transient_effective.prob", ["x", "y"], 1, None), (OWN + "u02_zero_multiplier.prob", ["x", "y"], 1, None),
             (OWN + "u02_zero_multiplier.prob", ["x", "y"], 1, 0), (OWN + "u03_delay_effective.prob", ["x", "y"], 1, None)]
LOOPS = [(TESTS + "solvable-2dwalk.prob", [], 1), (TESTS + "squares.prob", ["x", "y"], 1), (TESTS + "non-lin-markov-1.prob", ["x", "y"], 1), (TESTS + "deg-5.prob", ["x", "y"], 1)]


def job(item):
    import sympy as sp
    import z3
    from symengine import sympify as se
    from unsolvable_analysis import UnsolvInvSynthesizer, SolvLoopSynthesizer
    path, cvars, deg, k, N, mode = item["path"], item["vars"], item["deg"], item["k"], item["N"], item["mode"]
    name = f"{mode}/{path.split('/')[-1][:-5]}/{cvars}/deg={deg}/k={k}" + (f"/after:{item['prefix'].split('/')[-1][:-5]}" if item.get("prefix") else "")
    out = {"name": name, "records": [], "stats": smt.new_stats(), "refusals": [], "checked": 0, "mutants": 0, "solutions": 0}
    text = open(path).read()
    if item.get("init"):
        text = item["init"] + text
        name += "/random-init"
        out["name"] = name
    try:
        prog = parse_text(text)
    except LangError as e:
        out["records"].append({"kind": "inconclusive", "tag": name, "why": f"own reader: {e}"})
        return out
    try:
        with polar_iface.time_limit(60):
            program = polar_iface.normalized(text)
    except Exception as e:
        out["refusals"].append({"id": name, **polar_iface.exc_info(e)})
        return out
    if cvars is None:
        cvars = sorted(str(v) for v in program.defective_variables if not str(v).startswith("_"))[:3]
        if not cvars:
            return out
    vs = [se(v) for v in cvars]
    if item.get("prefix"):
        # another loop is analysed first in the same process (same variable names, different dynamics): nothing of it may
        # survive into this analysis
        try:
            with polar_iface.time_limit(120):
                pprog = polar_iface.normalized(open(item["prefix"]).read())
                UnsolvInvSynthesizer.synth_inv([se(v) for v in item["prefix_vars"]], 1, pprog, None)
        except Exception:  # noqa
            pass
        polar_iface.set_settings()
    try:
        with polar_iface.time_limit(item.get("timeout", 300)):
            if mode == "inv":
                sols = UnsolvInvSynthesizer.synth_inv(vs, deg, program, k)
                progs = []
            else:
                sols, progs = SolvLoopSynthesizer.synth_loop(vs, deg, program)
    except polar_iface.JobTimeout:
        out["refusals"].append({"id": name, "type": "Timeout", "msg": "synthesis", "where": ""})
        return out
    except Exception as e:
        out["refusals"].append({"id": name, **polar_iface.exc_info(e)})
        return out
    sols = sols or []
    out["solutions"] = len(sols) + len(progs)
    if not sols and not progs:
        return out
    # polynomials whose expectation under the ORIGINAL loop is needed: every returned Q, every source variable
    polys = {}
    for si, (Q, f) in enumerate(sols):
        try:
            polys[f"Q{si}"] = expr2q(sp.expand(sp.sympify(Q)))
        except (NotImplementedError, Exception):  # noqa
            pass
    for v in prog.assigned_vars():
        polys[f"var:{v}"] = QPoly.var(v)
    # reference semantics of the ORIGINAL loop (own reading of the text); expectations are taken while the paths are live
    table = {}
    I = None
    try:
        for kk, I, paths in kstep(prog, N, max_paths=5000):
            for key, q in polys.items():
                try:
                    table[(key, kk)] = I.expect(paths, lambda p, q=q: I.val(p.env, q))
                except (Unsupported, ZeroDivisionError) as e:
                    table[(key, kk)] = e
    except (Unsupported, ZeroDivisionError) as e:
        out["records"].append({"kind": "inconclusive", "tag": name, "why": f"oracle: {e}"})
        return out

    def expect_poly(kk, key):
        r = table[(key, kk)]
        if isinstance(r, Exception):
            raise r
        return r
    for si, (Q, f) in enumerate(sols):
        try:
            Qq = expr2q(sp.expand(sp.sympify(Q)))
            f = sp.sympify(f)
        except (NotImplementedError, Exception) as e:  # noqa
            out["records"].append({"kind": "inconclusive", "tag": f"{name}:sol{si}", "why": f"{type(e).__name__}: {e}"[:120]})
            continue
        for kk in range(N + 1):
            tag = f"{name}:sol{si}:n={kk}"
            try:
                groups = expect_poly(kk, f"Q{si}")
                v, model, _ = mc.compare(at_n(f, kk), I, groups, out["stats"], 60000, tag)
            except (Unsupported, Untranslatable, NotImplementedError, Exception) as e:  # noqa
                out["records"].append({"kind": "inconclusive", "tag": tag, "why": f"{type(e).__name__}: {e}"[:140]})
                continue
            out["checked"] += 1
            if out["mutants"] == 0:
                mv, _, _ = mc.compare(at_n(f, kk) + 1, I, groups, None, 20000)
                out["mutants"] += 1
                if mv != "sat":
                    out["records"].append({"kind": "harness", "tag": tag, "why": "self-mutant not refuted"})
            if v == "sat":
                vals = mc.sym_values(model, set(I.z) | {s.name for s in at_n(f, kk).free_symbols})
                try:
                    pv = mc.eval_sympy_exact(at_n(f, kk), vals)
                    ov = mc.oracle_value(prog, Qq, kk, vals, fn=lambda I2, ps: I2.expect(ps, lambda p: I2.val(p.env, Qq.subs_deep({a: QPoly.const(b) for a, b in vals.items() if a.startswith("_")}))))
                except Exception as e:  # noqa
                    out["records"].append({"kind": "inconclusive", "tag": tag, "why": f"replay failed {type(e).__name__}: {e}"[:140]})
                    continue
                if mc.values_differ(pv, ov):
                    out["records"].append({"kind": "violation", "key": f"{name}|sol{si}", "tag": tag,
                                           "what": f"synthesised invariant {Q} with closed form {f}: at n={kk} the closed form gives {pv} but E[Q] of the loop is {ov} at {dict((a, str(b)) for a, b in vals.items())}",
                                           "replay": {"file": path, "vars": cvars, "deg": deg, "k": k, "Q": str(Q), "f": str(f), "n": kk, "values": {a: str(b) for a, b in vals.items()}}})
                    break
                out["records"].append({"kind": "harness", "tag": tag, "why": "model did not replay"})
            elif v != "unsat":
                out["records"].append({"kind": "inconclusive", "tag": tag, "why": "solver unknown"})
    # synthesised loops
    for pi, sprog in enumerate(progs):
        tag0 = f"{name}:loop{pi}"
        try:
            sir = read_polar(sprog)
        except (Unsupported, NotImplementedError, ZeroDivisionError) as e:
            out["records"].append({"kind": "inconclusive", "tag": tag0, "why": f"synthesised loop not readable: {e}"[:140]})
            continue
        svars = sir.assigned_vars()
        comb = [v for v in svars if v.startswith("_s")]
        targets = {}
        if comb and sols and pi < len(sols) and f"Q{pi}" in polys:
            targets[comb[0]] = f"Q{pi}"
        # the synthesised loop is read once, its values are taken while the paths are live
        stable = {}
        try:
            for kk, I2, sp2 in kstep(sir, N, max_paths=2000):
                for v in svars:
                    stable[(v, kk)] = I2.expect(sp2, lambda p, v=v: I2.val(p.env, QPoly.var(v)))
        except (Unsupported, ZeroDivisionError) as e:
            out["records"].append({"kind": "inconclusive", "tag": tag0, "why": f"synthesised loop: {e}"[:140]})
            continue
        for v in svars:
            if v.startswith("_t"):
                continue
            target = targets.get(v, f"var:{v}" if f"var:{v}" in polys else None)
            if target is None:
                continue
            for kk in range(N + 1):
                tag = f"{tag0}:{v}:n={kk}"
                try:
                    sval = stable[(v, kk)]
                    oval = expect_poly(kk, target)
                    side = []
                    a, b = I.to_z3(sval, side), I.to_z3(oval, side)
                    vv, model = smt.decide(list(I.solver.assertions()) + [s[2] for s in side] + [a != b], out["stats"], 60000, tag=tag)
                except (Unsupported, Exception) as e:  # noqa
                    out["records"].append({"kind": "inconclusive", "tag": tag, "why": f"{type(e).__name__}: {e}"[:140]})
                    continue
                out["checked"] += 1
                if vv == "sat":
                    out["records"].append({"kind": "violation", "key": f"{name}|loop{pi}|{v}", "tag": tag,
                                           "what": f"synthesised loop {pi} for {path.split('/')[-1]}: {v} at n={kk} differs from E[{polys[target]!r}] of the original loop at {model}",
                                           "replay": {"file": path, "vars": cvars, "deg": deg, "variable": v, "n": kk, "synthesised": str(sprog), "model": {a: str(b) for a, b in model.items()}}})
                    break
                elif vv != "unsat":
                    out["records"].append({"kind": "inconclusive", "tag": tag, "why": "solver unknown"})
    return out


def main():
    run = Run("C14", "translation_validation")
    N = 3 if run.quick else 4
    cases = CASES + CASES_OWN + ([] if run.quick else CASES_THOROUGH)
    items = [{"path": p, "vars": v, "deg": d, "k": k, "N": N, "mode": "inv", "timeout": 200 if run.quick else 600} for p, v, d, k in cases]
    items += [{"path": p, "vars": v, "deg": d, "k": None, "N": N, "mode": "loop", "timeout": 200 if run.quick else 600} for p, v, d in LOOPS + [(OWN + "u01_transient_effective.prob", ["x", "y"], 1)]]
    # the same loops entered with RANDOM initial values: E[Q(x0, y0)] is not Q(E x0, E y0) for degree >= 2
    rinit = [(TESTS + "non-lin-markov-1.prob", ["x", "y"], 2, None, "x = DiscreteUniform(1, 2)\ny = Bernoulli(1/3)\n"),
             (TESTS + "non-lin-markov-1.prob", ["x", "y"], 1, None, "x = Normal(1, 4)\ny = x + 1 {1/2} x - 2\n"),
             (TESTS + "squares.prob", ["x", "y"], 2, None, "x = Bernoulli(1/2)\ny = 2*x + 1 {1/3} 0\n"),
             (TESTS + "fibonaccitrace.prob", ["x", "y", "z"], 3, 1, "x = DiscreteUniform(0, 1)\ny = 1 {1/2} 2\nz = x + y\n")]
    for p, v, d, k, init in rinit:
        items.append({"path": p, "vars": v, "deg": d, "k": k, "N": N, "mode": "inv", "timeout": 200 if run.quick else 600, "init": init})
        if d <= 2:
            items.append({"path": p, "vars": v, "deg": d, "k": None, "N": N, "mode": "loop", "timeout": 200 if run.quick else 600, "init": init})
    # sequences of analyses in one process: loops that share variable names
    for pre, tgt in ((TESTS + "squares.prob", OWN + "u04_counting_effective.prob"), (OWN + "u04_counting_effective.prob", TESTS + "squares.prob"),
                     (OWN + "u01_transient_effective.prob", OWN + "u03_delay_effective.prob")):
        items.append({"path": tgt, "vars": ["x", "y"], "deg": 1, "k": None, "N": N, "mode": "inv", "timeout": 200, "prefix": pre, "prefix_vars": ["x", "y"]})
    items.append({"path": OWN + "u04_counting_effective.prob", "vars": ["x", "y"], "deg": 1, "k": None, "N": N, "mode": "inv", "timeout": 200})
    if run.args.only:
        items = [i for i in items if run.args.only in i["path"] or run.args.only in i.get("prefix", "")]
    results = jobs.run_jobs(job, items, timeout=400 if run.quick else 1500)
    run.notes.append({"slowest_jobs": jobs.slowest(items, lambda it: it["path"].split("/")[-1] + str(it["deg"]))})
    programs = checked = muts = sols = 0
    for it, (st, val) in zip(items, results):
        if st != "ok":
            run.job_failed(it['path'], st, val)
            continue
        run.add_stats(val["stats"])
        for r in val["refusals"]:
            run.refusal(r)
        programs += 1 if val["checked"] else 0
        checked += val["checked"]
        muts += val["mutants"]
        sols += val["solutions"]
        for r in val["records"]:
            if r["kind"] == "violation":
                run.violation(r["key"], r["what"], r["replay"])
            elif r["kind"] == "harness":
                run.harness_error(f"{r['tag']}: {r['why']}")
            else:
                run.inconc(f"{r['tag']}: {r['why']}")
        if val["checked"] and len(run.samples) < 6:
            run.sample({"case": val["name"], "solutions_or_loops": val["solutions"], "queries": val["checked"]})
    run.functions = ["unsolvable_analysis.unsolv_inv_synthesizer:UnsolvInvSynthesizer.synth_inv/solve_quadratic_system/get_invariants", "utils.solvers:solve_rec_by_summing",
                     "unsolvable_analysis.solv_loop_synthesizer:SolvLoopSynthesizer.synth_loop/handle_unsolvable_loop/handle_solvable_loop", "unsolvable_analysis.solvability_checker:SolvabilityChecker (see C18 for the graph kernel)"]
    run.bounds = {"n_max": N, "cases": len(items), "family": "the nine unsolvable test benchmarks with the candidate sets / degrees of the repo's tests (thorough: plus benchmarks/defective with candidate sets = defective variables)",
                  "symbolic": "all initial values (x0, ...) and all free coefficients of the returned solution family", "outside": "n > N; other candidate sets and degrees; loops whose synthesis does not finish in the time budget"}
    run.assumptions = ["the reference semantics of the original loop (vlib/sem.py)", "free coefficient symbols of a solution family (_u<k>) are universally quantified"]
    run.finish(programs=programs, disagreements_checked=checked, solutions_checked=sols, self_mutants_refuted=muts,
               explanation="per returned (Q, f) and n <= N one z3 query E[Q(state_n)] != f(n) over all initial values and free coefficients; per synthesised loop, variable and n one query against the original loop's expectation")


if __name__ == "__main__":
    main()
