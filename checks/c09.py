"""C09 -- moments after termination.

(Q1) the moment-given-termination sequence the real code returns equals, at every n <= N, E[M 1{stopped by n}] / P(stopped by n)
of the reference semantics (cross-multiplied; 'stopped by n' = one of the first n guard evaluations was false), for all
parameter values.  (Q2) the negated-guard indicator polynomial is the indicator on the types.  (Q3) the reported value
after the loop equals the limit of the verified sequence, where the limit is re-derived independently from the
exponential-polynomial shape of numerator and denominator (bases with |b| < 1 proved by the solver).  (Q4) central
moments / cumulants after the loop are the conversions of the verified limits."""
import sys
from argparse import Namespace
from fractions import Fraction
from vlib import polar_iface  # noqa
from vlib import smt, jobs, families
from vlib.findings import Run
from vlib.qpoly import QPoly
from vlib.lang import parse_text, LangError, arith, read_cond, expr2q, read_polar
from vlib.sem import Unsupported, kstep
from vlib.s2z import Tr, at_n, Untranslatable, N1, N2
from vlib.expo import general_branch
from vlib import momentcheck as mc


def exp_poly_limit(expr, I, stats, tag):
    """independent limit of an exponential polynomial ratio: -> sympy value | 'oo' | None (not derivable)"""
    import sympy as sp
    import z3
    n = N2
    e = sp.sympify(expr).xreplace({N1: N2})
    num, den = sp.fraction(sp.together(e))
    parts = []
    for poly in (num, den):
        poly = sp.expand(sp.powsimp(sp.expand(poly)))
        terms = {}
        for t in sp.Add.make_args(poly):
            coeff, base = sp.Integer(1), sp.Integer(1)
            for f in sp.Mul.make_args(t):
                if f.is_Pow and f.exp.has(n):
                    ex = sp.expand(f.exp)
                    a, b = ex.coeff(n, 1), ex.coeff(n, 0)
                    if sp.expand(ex - a * n - b) != 0:
                        return None
                    base = base * f.base ** a
                    coeff = coeff * f.base ** b
                else:
                    coeff = coeff * f
            base = sp.nsimplify(sp.simplify(base))
            terms[base] = terms.get(base, 0) + coeff
        parts.append(terms)

    import itertools
    # numeric bases only (symbolic bases: sympy refuses the limit as well)
    allb = [b for terms in parts for b, c in terms.items() if sp.expand(c) != 0]
    if any(b.free_symbols for b in allb) or not parts[1]:
        return None

    def mod2(b):
        t = Tr(sym=I.zv)
        re, im = t.tr(b)
        return t, re * re + (im * im if im is not None else 0)

    def strictly_smaller(b, B):
        """|b| < |B| proved by the solver"""
        tb, mb = mod2(b)
        tB, mB = mod2(B)
        v, _ = smt.decide(tb.constraints() + tB.constraints() + [mb >= mB], stats, 20000, tag=tag + f":|{b}|<|{B}|", keep_sample=False)
        return v == "unsat"
    den_bases = [b for b, c in parts[1].items() if sp.expand(c) != 0]
    B = max(den_bases, key=lambda b: abs(complex(sp.N(b, 30))))
    if not all(strictly_smaller(b, B) for b in den_bases if b != B):
        return None
    cd = sp.Poly(sp.expand(parts[1][B]), n)
    num_bases = [b for b, c in parts[0].items() if sp.expand(c) != 0]
    bigger = [b for b in num_bases if b != B and not strictly_smaller(b, B)]
    if bigger:
        # a numerator base of modulus >= |B| other than B itself: diverges if strictly bigger, no limit if equal modulus
        if all(strictly_smaller(B, b) for b in bigger):
            return "oo"
        return None
    cn = sp.Poly(sp.expand(parts[0].get(B, 0)), n)
    if cn.degree() > cd.degree():
        return "oo"
    if cn.degree() < cd.degree():
        return sp.Integer(0)
    return sp.simplify(cn.LC() / cd.LC())


def job(item):
    import sympy as sp
    import z3
    from recurrences import RecBuilder
    from cli.common import get_moment_given_termination, transform_to_after_loop
    from program.condition.not_cond import Not
    from symengine import sympify as se
    pid, text, goals, N = item["id"], item["text"], item["goals"], item["N"]
    out = {"id": pid, "records": [], "stats": smt.new_stats(), "refusals": [], "skipped": None, "checked": 0, "mutants": 0, "limits": 0}
    try:
        prog = parse_text(text)
    except LangError as e:
        out["skipped"] = f"own reader: {e}"
        return out
    if prog.guard == ("true",):
        out["skipped"] = "no loop guard"
        return out
    try:
        with polar_iface.time_limit(60):
            program = polar_iface.normalized(text)
    except Exception as e:
        out["refusals"].append({"id": pid, "stage": "normalize", **polar_iface.exc_info(e)})
        return out
    ns = Namespace(solvability_check=False, after_loop=True, at_n=-1, tail_bound_moments=2)
    rb = RecBuilder(program)
    solvers = {}
    # Q2 indicator kernel
    try:
        from vlib.onestep import type_constraints
        from vlib.sem import Interp, Path
        norm = read_polar(program)
        Ik = Interp(norm, unset_suffix="")
        env = {v: QPoly.var(v) for v in Ik.vars}
        ng = Not(program.original_loop_guard)
        ar = expr2q(ng.to_arithm(program)).to_z3(Ik.zv)
        cz = Ik.cond(read_cond(ng), env, Path(env))
        cz = z3.BoolVal(cz) if isinstance(cz, bool) else cz
        v, model = smt.decide(type_constraints(norm, Ik) + [ar != z3.If(cz, z3.RealVal(1), z3.RealVal(0))], out["stats"], 20000, tag=f"{pid}:guard-indicator")
        out["checked"] += 1
        if v == "sat":
            out["records"].append({"kind": "violation", "key": f"{pid}|guard-indicator", "tag": pid,
                                   "what": f"indicator polynomial of the negated loop guard {ng} is not its indicator on the types at {model}", "replay": {"text": text}})
    except Exception as e:  # noqa
        out["records"].append({"kind": "inconclusive", "tag": f"{pid}:guard-indicator", "why": f"{type(e).__name__}: {e}"[:140]})
    seqs = {}
    for g in goals:
        try:
            with polar_iface.time_limit(item.get("goal_timeout", 60)):
                cm, exact = get_moment_given_termination(se(g), solvers, rb, ns, program)
            seqs[g] = sp.sympify(cm)
        except polar_iface.JobTimeout:
            out["refusals"].append({"id": pid, "goal": g, "type": "Timeout", "msg": "", "where": ""})
        except Exception as e:
            out["refusals"].append({"id": pid, "goal": g, **polar_iface.exc_info(e)})
    if not seqs:
        return out
    # reference: E[M 1{stopped by k}] and P(stopped by k)
    try:
        ref = {g: [] for g in seqs}
        pst = []
        gq = {g: arith(g) for g in seqs}
        I = None
        for k, I, paths in kstep(prog, N):
            pst.append(I.expect(paths, lambda p: QPoly.const(1), only=lambda p: p.stopped))
            for g in seqs:
                ref[g].append(I.expect(paths, lambda p, g=g: I.val(p.env, gq[g]), only=lambda p: p.stopped))
    except (Unsupported, ZeroDivisionError) as e:
        out["skipped"] = f"oracle: {e}"
        return out
    for g, cm in seqs.items():
        first = True
        for k in range(1, N + 1):
            tag = f"{pid}:E({g}|stopped by {k})"
            try:
                ek = at_n(cm, k)
                if ek.has(sp.nan) or ek.has(sp.zoo):
                    continue  # P(stopped by k) = 0: no conditional expectation exists there
                t = Tr(sym=I.zv)
                re, im = t.tr(ek)
            except (Untranslatable, Exception) as e:  # noqa
                out["records"].append({"kind": "inconclusive", "tag": tag, "why": f"translation {type(e).__name__}: {e}"[:140]})
                continue
            side = []
            pz = I.to_z3(pst[k], side)
            ez = I.to_z3(ref[g][k], side)
            cons = list(I.solver.assertions()) + t.constraints() + [s[2] for s in side] + [pz != 0]
            v, model = smt.decide(cons + [re * pz != ez], out["stats"], 60000, tag=tag)
            out["checked"] += 1
            if first:
                first = False
                mv, _ = smt.decide(cons + [re * pz != ez + pz], None, 20000)
                out["mutants"] += 1
                if mv != "sat":
                    out["records"].append({"kind": "inconclusive", "tag": tag, "why": "self-mutant not refuted (P(stopped) identically 0 at this k?)"})
            if v == "sat":
                names = set(I.z)
                vals = mc.sym_values(model, names)
                try:
                    pv = mc.eval_sympy_exact(ek, vals)
                    num = mc.oracle_value(prog, g, k, vals, fn=lambda I2, ps: I2.expect(ps, lambda p: I2.val(p.env, gq[g]), only=lambda p: p.stopped))
                    den = mc.oracle_value(prog, g, k, vals, fn=lambda I2, ps: I2.expect(ps, lambda p: QPoly.const(1), only=lambda p: p.stopped))
                    ov = num / den
                except Exception as e:  # noqa
                    out["records"].append({"kind": "inconclusive", "tag": tag, "why": f"replay failed {type(e).__name__}: {e}"[:140]})
                    continue
                if mc.values_differ(pv, ov):
                    out["records"].append({"kind": "violation", "key": f"{pid}|E({g})|given-termination", "tag": tag,
                                           "what": f"moment of {g} given termination at n={k}: Polar {pv}, exact E[{g} 1{{stopped}}]/P(stopped) = {ov} at {dict((a, str(b)) for a, b in vals.items())}",
                                           "replay": {"text": text, "goal": g, "n": k, "values": {a: str(b) for a, b in vals.items()}, "sequence": str(cm)[:300]}})
                    break
                out["records"].append({"kind": "harness", "tag": tag, "why": "model did not replay"})
            elif v != "unsat":
                out["records"].append({"kind": "inconclusive", "tag": tag, "why": "solver unknown"})
        # Q3 limit
        tag = f"{pid}:E({g}) after loop"
        try:
            with polar_iface.time_limit(60):
                lim = transform_to_after_loop(cm)
        except polar_iface.JobTimeout:
            out["refusals"].append({"id": pid, "goal": g, "type": "Timeout", "msg": "limit", "where": ""})
            continue
        except Exception as e:
            out["refusals"].append({"id": pid, "goal": g, **polar_iface.exc_info(e)})
            continue
        if lim is None:
            out["refusals"].append({"id": pid, "goal": g, "type": "NoLimit", "msg": "limit_seq returned None", "where": "cli/common.py:transform_to_after_loop"})
            continue
        try:
            gen, n0 = general_branch(cm)
            mine = exp_poly_limit(gen, I, out["stats"], tag)
        except Exception as e:  # noqa
            mine = None
            out["records"].append({"kind": "inconclusive", "tag": tag, "why": f"independent limit: {type(e).__name__}: {e}"[:140]})
        if mine is None:
            out["records"].append({"kind": "inconclusive", "tag": tag, "why": "limit not derivable from the exponential-polynomial shape"})
            continue
        if mine == "oo":
            # an oscillating divergence is reported by sympy's limit as AccumBounds(-oo, oo): not a finite value either
            # ... and with a symbolic initial value as oo*sign(2*y0 + 1): anything that mentions an infinity is not a finite value
            unbounded = (isinstance(lim, sp.AccumBounds) and (lim.min == -sp.oo or lim.max == sp.oo)) or sp.sympify(lim).has(sp.oo, -sp.oo, sp.zoo)
            if not (lim in (sp.oo, -sp.oo, sp.zoo) or unbounded):
                out["records"].append({"kind": "violation", "key": f"{pid}|E({g})|limit", "tag": tag, "what": f"E({g}) after the loop diverges but is reported as {lim}", "replay": {"text": text, "goal": g}})
            out["limits"] += 1
            continue
        try:
            t = Tr(sym=I.zv)
            a, _ = t.tr(sp.sympify(lim))
            b, _ = t.tr(mine)
            v, model = smt.decide(list(I.solver.assertions()) + t.constraints() + [a != b], out["stats"], 30000, tag=tag)
            out["checked"] += 1
            out["limits"] += 1
            if v == "sat":
                out["records"].append({"kind": "violation", "key": f"{pid}|E({g})|limit", "tag": tag,
                                       "what": f"E({g}) after the loop reported as {lim}; the limit of the moment-given-termination sequence {str(gen)[:120]} is {mine}", "replay": {"text": text, "goal": g, "reported": str(lim), "limit": str(mine)}})
            elif v != "unsat":
                out["records"].append({"kind": "inconclusive", "tag": tag, "why": "solver unknown"})
        except (Untranslatable, Exception) as e:  # noqa
            out["records"].append({"kind": "inconclusive", "tag": tag, "why": f"{type(e).__name__}: {e}"[:140]})
    # Q4 central moment / cumulant / tail-bound goals after the loop, through the real goal handlers, against the
    # conversions of the independently derived limits of the first two moments
    try:
        g0 = next((g for g in goals if g.isidentifier()), None)
        if g0 is not None and item.get("kinds", False):
            out["records"] += goal_kinds(program, rb, ns, g0, I, out, pid, text)
    except polar_iface.JobTimeout:
        out["refusals"].append({"id": pid, "goal": "goal kinds", "type": "Timeout", "msg": "", "where": ""})
    return out


def goal_kinds(program, rb, ns, g0, I, out, pid, text):
    import contextlib
    import io
    import re
    import sympy as sp
    from cli.actions.goals_action import GoalsAction
    from cli.common import get_moment_given_termination
    from symengine import sympify as se
    recs = []
    lims = {}
    with polar_iface.time_limit(40):
        for k in (1, 2):
            cm, _ = get_moment_given_termination(se(g0) ** k, {}, rb, ns, program)
            gen, n0 = general_branch(sp.sympify(cm))
            lims[k] = exp_poly_limit(gen, I, out["stats"], f"{pid}:kinds:{g0}**{k}")
    if any(v is None or v == "oo" for v in lims.values()):
        return recs
    m1, m2 = sp.sympify(lims[1]), sp.sympify(lims[2])
    a_up, a_lo = sp.Integer(3), sp.Integer(1)
    expect = {"c2": m2 - m1 ** 2, "k2": m2 - m1 ** 2, "upper1": m1 / a_up, "upper2": m2 / a_up ** 2,
              "lower": (m1 - a_lo) ** 2 / (m2 - 2 * a_lo * m1 + a_lo ** 2)}
    got = {}
    ga = GoalsAction(ns)
    ga.initialize_program(program, rb)

    def guarded(name, f):
        try:
            with polar_iface.time_limit(25):
                return f()
        except polar_iface.JobTimeout:
            out["refusals"].append({"id": pid, "goal": name, "type": "Timeout", "msg": "", "where": ""})
        except Exception as e:  # noqa
            out["refusals"].append({"id": pid, "goal": f"{name}({g0}) --after_loop", **polar_iface.exc_info(e)})
        return None
    r = guarded("c2", lambda: ga.handle_central_moment_goal([2, se(g0)]))
    if r is not None:
        got["c2"] = r[0]
    r = guarded("k2", lambda: ga.handle_cumulant_goal([2, se(g0)]))
    if r is not None:
        got["k2"] = r[0]

    def printed(f):
        buf = io.StringIO()
        with contextlib.redirect_stdout(buf):
            f()
        return re.sub(r"\x1b\[[0-9;]*m", "", buf.getvalue())
    txt = guarded("P(>=) <= ?", lambda: printed(lambda: ga.handle_tail_bound_upper_goal([se(g0), se(str(a_up))])))
    if txt is not None:
        for ln in txt.splitlines():
            m = re.match(r"^\s*\((\d)\)\s+(.*)$", ln)
            if m:
                got[f"upper{m.group(1)}"] = m.group(2)
    txt = guarded("P(>) >= ?", lambda: printed(lambda: ga.handle_tail_bound_lower_goal([se(g0), se(str(a_lo))])))
    if txt is not None:
        for ln in txt.splitlines():
            m = re.match(r"^P\(.*\) >= (.*)$", ln)
            if m:
                got["lower"] = m.group(1)
    for name, val in got.items():
        tag = f"{pid}:{name}({g0}) after loop"
        try:
            val = sp.sympify(str(val)) if isinstance(val, str) else sp.sympify(val)
            if val in (sp.oo, -sp.oo, sp.zoo, sp.nan) or expect[name] in (sp.zoo, sp.nan):
                continue
            t = Tr(sym=I.zv)
            a, _ = t.tr(val)
            b, _ = t.tr(sp.simplify(expect[name]))
            v, model = smt.decide(list(I.solver.assertions()) + t.constraints() + [a != b], out["stats"], 30000, tag=tag)
            out["checked"] += 1
            out["kinds"] = out.get("kinds", 0) + 1
            if v == "sat":
                recs.append({"kind": "violation", "key": f"{pid}|{name}({g0})|after-loop", "tag": tag,
                             "what": f"{name} goal of {g0} after the loop reported as {val}; from the limits E({g0}) = {m1}, E({g0}**2) = {m2} it is {sp.simplify(expect[name])}",
                             "replay": {"text": text, "goal": f"{name}({g0})", "reported": str(val), "expected": str(expect[name])}})
            elif v != "unsat":
                recs.append({"kind": "inconclusive", "tag": tag, "why": "solver unknown"})
        except (Untranslatable, Exception) as e:  # noqa
            recs.append({"kind": "inconclusive", "tag": tag, "why": f"{type(e).__name__}: {e}"[:140]})
    return recs


KINDS_QUICK = {"g01_geometric", "g03_two_flags", "g07_exit_draw", "g09_single_if_body"}   # the goal-kind leg is dominated by sympy's limit_seq


def main():
    run = Run("C09", "translation_validation")
    items = []
    N = 4 if run.quick else 6
    progs = families.corpus("corpus_guard")
    for pid, text, goals in families.corpus() + families.corpus("corpus_class") + families.corpus("corpus_sym") + families.repo_benchmarks(True, run.seed, limit_quick=0) + \
            families.generated(run.quick, run.seed, count=(60 if run.quick else 600)):
        if "while true" not in text:
            progs.append((pid, text, [g for g in goals if g != "@vars"][:3]))
    guard_ids = {p[0] for p in families.corpus("corpus_guard")}
    for pid, text, goals in progs:
        if goals:
            items.append({"id": pid, "text": text, "goals": goals, "N": N, "goal_timeout": 30 if run.quick else 90, "kinds": (pid in KINDS_QUICK) if run.quick else (pid in guard_ids)})
    if run.args.only:
        items = [i for i in items if run.args.only in i["id"]]
    results = jobs.run_jobs(job, items, timeout=400 if run.quick else 1200)
    run.notes.append({"slowest_jobs": jobs.slowest(items, lambda it: it["id"])})
    programs = checked = muts = limits = 0
    for it, (st, val) in zip(items, results):
        if st != "ok":
            run.job_failed(it['id'], st, val)
            continue
        run.add_stats(val["stats"])
        for r in val["refusals"]:
            run.refusal(r)
        if val["skipped"]:
            run.inconc(f"{it['id']}: outside the oracle ({val['skipped']})")
            continue
        programs += 1 if val["checked"] else 0
        checked += val["checked"]
        muts += val["mutants"]
        limits += val["limits"]
        for r in val["records"]:
            if r["kind"] == "violation":
                run.violation(r["key"], r["what"], r["replay"])
            elif r["kind"] == "harness":
                run.harness_error(f"{r['tag']}: {r['why']}")
            else:
                run.inconc(f"{r['tag']}: {r['why']}")
        if val["checked"] and len(run.samples) < 6:
            run.sample({"program": it["id"], "goals": it["goals"], "text": it["text"][:300]})
    run.functions = ["cli.common:get_moment_given_termination/get_moment_poly/transform_to_after_loop", "program.condition.*:to_arithm (negated original loop guard)",
                     "program.transformer.conditions_normalizer:ConditionsNormalizer (original_loop_guard)", "program.transformer.loop_guard_transformer:LoopGuardTransformer"]
    run.bounds = {"n_max": N, "family": f"{len(items)} guarded programs (corpus_guard + guarded programs of the other corpora and of the generated family)",
                  "stopped_by_n": "operational reading: one of the first n guard evaluations was false; n = 0 and n with P(stopped by n) = 0 are excluded",
                  "limit": "re-derived from the exponential-polynomial shape (constant parts; |b| < 1 for every other base proved by z3); otherwise inconclusive",
                  "outside": "divergence reporting beyond forced seeds; limits sympy cannot compute for symbolic parameters are refusals"}
    run.assumptions = ["probabilities in [0,1], admissible distribution parameters, denominators of the reported sequence non-zero", "P(stopped by n) != 0 at the compared n"]
    run.finish(programs=programs, disagreements_checked=checked, self_mutants_refuted=muts, limits_confirmed=limits,
               explanation="per (program, goal, n <= N) one z3 query: reported conditional moment x P(stopped by n) != E[M 1{stopped by n}] over all parameter values; limits by an independent derivation")


if __name__ == "__main__":
    main()
