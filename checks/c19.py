"""C19 -- texts that denote the same loop yield the same analysis; arithmetic follows Python precedence; ill-formed
texts and invalid probability vectors are rejected.

The text itself cannot be symbolic (regex lexing on symbolic strings is out of reach): texts are enumerated from a
bounded rewrite system / expression grammar; everything the texts denote (variables, parameters, pre-states) is symbolic
and decided by z3."""
import itertools
import random
import sys
from fractions import Fraction
from vlib import polar_iface  # noqa
from vlib import smt, jobs, families
from vlib.findings import Run
from vlib.qpoly import QPoly
from vlib.lang import parse_text, LangError, arith, expr2q, read_polar
from vlib.printer import to_text, Unprintable
from vlib.sem import Unsupported
from vlib import momentcheck as mc

STYLES = [
    ("plain", {}),
    ("noise", {"noise": True}),
    ("crlf+tabs", {"crlf": True, "tabs": True}),
    ("parens", {"parens": True}),
    ("decimals", {"decimals": True}),
    ("explicit-last-probability", {"explicit_last": True}),
    ("temporaries", {"temps": True}),
    ("nested-else-if", {"nested_elif": True}),
    ("all", {"noise": True, "parens": True, "decimals": True, "explicit_last": True, "temps": True, "nested_elif": True}),
]


# ------------------------------------------------------------------ Q1 expressions

def expressions(quick, seed):
    rnd = random.Random(f"c19-{seed}")
    atoms = ["x", "y", "2", "3", "0.5", "-x", "-1", "+y", "-2", "10", "x1", "a_b"]
    must = ["-x**2", "2**3**2", "x - -1", "x*-y", "2--3", "x/2/2", "x-y-1", "(x+1)**2", "x**2*y", "-x*-y", "2*3**2", "x-1+y", "x/4*2", "(x-y)*(x+y)", "x - (y - 1)", "-2**2",
            "1/2*x", "x*1/2", "1-1-x", "2*-3**2", "x+y*2**2", "(2+3)*x**2/5", "0.1*x + 0.2", "x/0.5", "-(x)" if False else "x - (x)", "3 - 2 - 1 - x"]

    def gen(depth):
        k = rnd.random()
        if depth == 0 or k < 0.3:
            return rnd.choice(atoms)
        if k < 0.42:
            return f"({gen(depth - 1)})"
        op = rnd.choice(["+", "-", "*", "/", "**", "+", "-", "*"])
        left = gen(depth - 1)
        if op == "**":
            right = rnd.choice(["2", "3", "2", "0", "1"])
        elif op == "/":
            right = rnd.choice(["2", "4", "0.5", "(1+1)", "3", "-2"])
        else:
            right = gen(depth - 1)
        sp_ = rnd.choice(["", " ", "  "])
        return f"{left}{sp_}{op}{sp_}{right}"
    n = 150 if quick else 3000
    out = list(must)
    while len(out) < n + len(must):
        out.append(gen(3))
    seen, res = set(), []
    for e in out:
        if e not in seen:
            seen.add(e)
            res.append(e)
    return res


def job_expr(batch):
    import z3
    out = {"records": [], "stats": smt.new_stats(), "checked": 0, "mutants": 0, "refusals": []}
    zs = {}

    def zv(n):
        if n not in zs:
            zs[n] = z3.Real(n)
        return zs[n]
    for e in batch:
        tag = f"expr:{e}"
        try:
            want = arith(e)
        except (LangError, ZeroDivisionError, Exception):  # noqa
            continue  # not a polynomial in Python's reading: outside the family
        text = f"x = 0\ny = 0\nx1 = 0\na_b = 0\nz = 0\nwhile true:\n    z = {e}\nend\n"
        try:
            polar_iface.set_settings()
            p = polar_iface.parse(text)
            got = expr2q(p.loop_body[0].polynomials[0])
        except NotImplementedError as ex:
            out["records"].append({"kind": "inconclusive", "tag": tag, "why": f"{ex}"[:100]})
            continue
        except Exception as ex:
            out["refusals"].append({"id": tag, **polar_iface.exc_info(ex)})
            continue
        side = []
        v, model = smt.decide([got.to_z3(zv, side) != want.to_z3(zv, side)] + [s[2] for s in side], out["stats"], 10000, tag=tag, keep_sample=(out["checked"] < 3))
        out["checked"] += 1
        if out["mutants"] == 0:
            mv, _ = smt.decide([got.to_z3(zv) != (want + 1).to_z3(zv)], None, 5000)
            out["mutants"] += 1
            if mv != "sat":
                out["records"].append({"kind": "harness", "tag": tag, "why": "self-mutant not refuted"})
        if v == "sat":
            vals = {n: Fraction(model.get(n, 0)) for n in zs}
            a, b = got.evalq(vals), want.evalq(vals)
            if a != b:
                out["records"].append({"kind": "violation", "key": f"expr|{e}", "tag": tag,
                                       "what": f"the expression '{e}' is read as {got!r}; with Python precedence it denotes {want!r} (values {a} vs {b} at {dict((k, str(x)) for k, x in vals.items())})",
                                       "replay": {"expression": e, "values": {k: str(x) for k, x in vals.items()}}})
            else:
                out["records"].append({"kind": "harness", "tag": tag, "why": "model did not replay"})
        elif v != "unsat":
            out["records"].append({"kind": "inconclusive", "tag": tag, "why": "solver unknown"})
    return out


# ------------------------------------------------------------------ Q2 rewritings

def job_rewrite(item):
    from checks.c02 import compare_stages, concrete_expect, pre_state
    from vlib.sem import Interp
    import sympy as sp
    pid, text, goals, N, with_cf = item["id"], item["text"], item["goals"], item["N"], item["closed_forms"]
    out = {"records": [], "stats": smt.new_stats(), "checked": 0, "mutants": 0, "refusals": [], "variants": 0}
    try:
        base = parse_text(text)
    except LangError:
        return out
    tvars = [v for v in base.assigned_vars() if not v.startswith("_")]
    base_cf = None
    for sname, style in STYLES:
        try:
            vt = to_text(base, **style)
        except Unprintable:
            continue
        tag = f"{pid}:{sname}"
        # the harness's own reader must read every spelling as the same program (else the harness is wrong)
        try:
            mine = parse_text(vt)
        except LangError as e:
            out["records"].append({"kind": "harness", "tag": tag, "why": f"own reader rejects its own printing: {e}"[:120]})
            continue
        try:
            polar_iface.set_settings()
            parsed = read_polar(polar_iface.parse(vt))
        except NotImplementedError as e:
            out["records"].append({"kind": "inconclusive", "tag": tag, "why": f"{e}"[:100]})
            continue
        except Exception as e:
            out["records"].append({"kind": "violation", "key": f"{pid}|{sname}|rejected", "tag": tag,
                                   "what": f"the spelling '{sname}' of {pid} is rejected: {type(e).__name__}: {str(e)[:120]}", "replay": {"text": vt, "style": sname}})
            continue
        out["variants"] += 1
        # temporaries introduce extra variables; compare on the base variables
        recs, info = compare_stages(base, parsed, tvars, 2, {}, out["stats"], tag, want_mutant=(out["mutants"] == 0))
        out["checked"] += info["queries"]
        if info["mutant"] is not None:
            out["mutants"] += 1
            if not info["mutant"]:
                out["records"].append({"kind": "harness", "tag": tag, "why": "self-mutant not refuted"})
        for r in recs:
            if r["kind"] != "cex":
                out["records"].append(r)
                continue
            vals = mc.sym_values(r["model"], r["names"])
            try:
                pre = pre_state(base, parsed, Interp(base)) if r["phase"] == "step" else None
                va = concrete_expect(base, r["phase"], r["mq"], vals, preenv=pre)
                vb = concrete_expect(parsed, r["phase"], r["mq"], vals, preenv=pre)
            except Exception as e:  # noqa
                out["records"].append({"kind": "inconclusive", "tag": tag, "why": f"replay failed: {e}"[:120]})
                continue
            if va != vb:
                out["records"].append({"kind": "violation", "key": f"{pid}|{sname}|parsed", "tag": tag,
                                       "what": f"{pid} spelled as '{sname}' is parsed into a different program: E[{r['monomial']}] of {'one iteration' if r['phase'] == 'step' else 'the initial block'} is {vb}, the text denotes {va} at {dict((k, str(v)) for k, v in vals.items() if v != 0)}",
                                       "replay": {"text": vt, "style": sname, "monomial": r["monomial"], "values": {k: str(v) for k, v in vals.items()}, "parsed": repr(parsed)}})
            else:
                out["records"].append({"kind": "harness", "tag": tag, "why": "model did not replay"})
        # closed forms of the spellings agree at every n <= N (thorough / selected programs)
        if with_cf and goals:
            res = polar_iface.closed_forms(vt, goals[:2], per_goal_timeout=30)
            if res["exc"]:
                out["refusals"].append({"id": tag, **res["exc"]})
                continue
            if base_cf is None:
                base_cf = res
                continue
            from vlib.s2z import Tr, at_n
            import z3
            for g in goals[:2]:
                if "cf" not in res["goals"].get(g, {}) or "cf" not in base_cf["goals"].get(g, {}):
                    continue
                a, b = sp.sympify(base_cf["goals"][g]["cf"]), sp.sympify(res["goals"][g]["cf"])
                for k in range(N + 1):
                    try:
                        t = Tr(uf=True)
                        ar, ai = t.tr(at_n(a, k))
                        br, bi = t.tr(at_n(b, k))
                    except Exception:  # noqa
                        continue
                    v, model = smt.decide(t.constraints() + [ar != br], out["stats"], 30000, tag=f"{tag}:E({g}):n={k}", keep_sample=False)
                    out["checked"] += 1
                    if v == "sat":
                        out["records"].append({"kind": "violation", "key": f"{pid}|{sname}|E({g})", "tag": tag,
                                               "what": f"E({g}) at n={k} differs between the plain spelling and '{sname}' of {pid} at {model}", "replay": {"text": vt, "style": sname, "goal": g, "n": k}})
                        break
    return out


# ------------------------------------------------------------------ Q3 rejection

ILL_FORMED = [
    ("missing colon after while", "x = 0\nwhile true\n    x = x + 1\nend\n"),
    ("missing end", "x = 0\nwhile true:\n    x = x + 1\n"),
    ("missing colon after if", "x = 0\nf = 0\nwhile true:\n    if f == 0\n        x = x + 1\n    end\nend\n"),
    ("if without end", "x = 0\nf = 0\nwhile true:\n    if f == 0:\n        x = x + 1\nend\n"),
    ("double assignment operator", "x = 0\nwhile true:\n    x = = 1\nend\n"),
    ("unbalanced parenthesis", "x = 0\nwhile true:\n    x = (x + 1\nend\n"),
    ("unbalanced closing parenthesis", "x = 0\nwhile true:\n    x = x + 1)\nend\n"),
    ("operator pair", "x = 0\nwhile true:\n    x = x +* 1\nend\n"),
    ("trailing operator", "x = 0\nwhile true:\n    x = x +\nend\n"),
    ("unclosed probability", "x = 0\nwhile true:\n    x = 1 {1/2 0\nend\n"),
    ("choice without second value", "x = 0\nwhile true:\n    x = 1 {1/2}\nend\n"),
    ("elif without if", "x = 0\nf = 0\nwhile true:\n    elif f == 0:\n        x = 1\n    end\nend\n"),
    ("else before elif", "x = 0\nf = 0\nwhile true:\n    if f == 0:\n        x = 1\n    else:\n        x = 2\n    elif f == 1:\n        x = 3\n    end\nend\n"),
    ("single equals in condition", "x = 0\nf = 0\nwhile true:\n    if f = 0:\n        x = 1\n    end\nend\n"),
    ("unknown comparison", "x = 0\nf = 0\nwhile true:\n    if f != 0:\n        x = 1\n    end\nend\n"),
    ("no loop", "x = 0\nx = x + 1\n"),
    ("text after end", "x = 0\nwhile true:\n    x = x + 1\nend\nx = 5\n"),
    ("simultaneous assignment arity", "x = 0\ny = 0\nwhile true:\n    x, y = 1\nend\n"),
    ("uppercase variable", "X = 0\nwhile true:\n    X = X + 1\nend\n"),
    ("unknown distribution", "x = 0\nwhile true:\n    x = Poisson(2)\nend\n"),
    ("distribution arity", "x = 0\nwhile true:\n    x = Normal(1)\nend\n"),
    ("empty body", "x = 0\nwhile true:\nend\n"),
    ("and without operand", "x = 0\nf = 0\nwhile true:\n    if f == 0 &&:\n        x = 1\n    end\nend\n"),
    ("two statements on a line", "x = 0\nwhile true:\n    x = 1 y = 2\nend\n"),
    ("while twice", "x = 0\nwhile true:\n    while true:\n        x = 1\n    end\nend\n"),
]
BAD_PROBABILITIES = [
    ("probability above one", "x = 0\nwhile true:\n    x = x + 1 {3/2} x\nend\n"),
    ("negative probability", "x = 0\nwhile true:\n    x = 1 {-1/2} 0\nend\n"),
    ("probabilities sum above one", "x = 0\nwhile true:\n    x = 1 {1/2} 2 {3/4} 3\nend\n"),
    ("explicit probabilities sum above one", "x = 0\nwhile true:\n    x = 1 {1/2} 2 {3/4}\nend\n"),
    ("decimal probability above one", "x = 0\nwhile true:\n    x = 1 {1.5} 0\nend\n"),
    ("bernoulli parameter above one", "x = 0\nwhile true:\n    x = Bernoulli(2)\nend\n"),
    ("categorical parameters do not sum to one", "x = 0\nwhile true:\n    x = Categorical(1/2, 1/4)\nend\n"),
]


def job_reject(_):
    out = {"records": [], "stats": smt.new_stats(), "checked": 0, "mutants": 0, "refusals": [], "rejected": 0}
    for name, text in ILL_FORMED + BAD_PROBABILITIES:
        out["checked"] += 1
        try:
            polar_iface.set_settings()
            from program import normalize_program
            p = polar_iface.parse(text)
            try:
                normalize_program(p)
                where = "parsed and normalised"
            except Exception:
                where = "parsed (refused later during normalisation)"
                if (name, text) in BAD_PROBABILITIES:
                    out["rejected"] += 1
                    continue
        except Exception:
            out["rejected"] += 1
            continue
        kind = "invalid probability vector" if (name, text) in BAD_PROBABILITIES else "ill-formed text"
        if name == "bernoulli parameter above one":
            out["records"].append({"kind": "inconclusive", "tag": f"reject:{name}", "why": "Bernoulli(2) is accepted; the property demands rejection only for probabilistic choices (recorded)"})
            continue
        out["records"].append({"kind": "violation", "key": f"reject|{name}", "tag": f"reject:{name}",
                               "what": f"{kind} ({name}) is accepted: {where}: {str(p)[:160]!r}", "replay": {"text": text, "name": name}})
    return out


RENAME_BASE = "w = 0\ny = 0\nwhile true:\n    w = w + 1 {1/2} w\n    y = y + w\nend\n"
RENAME_TO = ["e", "pi", "oo", "nan", "inf", "gamma", "beta", "zeta", "lambda", "continue", "i", "s", "ln", "re", "im", "abs", "max", "true1", "x1"]


def job_rename(_):
    """renaming a variable never changes the analysis: either the name is refused, or the closed forms agree"""
    import re
    import sympy as sp
    import z3
    from vlib.s2z import Tr, at_n
    out = {"records": [], "stats": smt.new_stats(), "checked": 0, "mutants": 0, "refusals": []}
    base = polar_iface.closed_forms(RENAME_BASE, ["y", "w"])
    for nm in RENAME_TO:
        text = re.sub(r"\bw\b", nm, RENAME_BASE)
        res = polar_iface.closed_forms(text, ["y"])
        if res["exc"] or "cf" not in res["goals"].get("y", {}):
            out["refusals"].append({"id": f"rename:{nm}", **(res["exc"] or res["goals"]["y"].get("exc", {"type": "Timeout", "msg": "", "where": ""}))})
            continue
        a, b = sp.sympify(base["goals"]["y"]["cf"]), sp.sympify(res["goals"]["y"]["cf"])
        for k in range(4):
            tag = f"rename:w->{nm}:E(y):n={k}"
            try:
                t = Tr(uf=True)
                ar, ai = t.tr(at_n(a, k))
                br, bi = t.tr(at_n(b, k))
                v, model = smt.decide(t.constraints() + [ar != br], out["stats"], 20000, tag=tag, keep_sample=False)
            except Exception as e:  # noqa
                v = "sat" if sp.simplify(at_n(a, k) - at_n(b, k)) != 0 else "unsat"
            out["checked"] += 1
            if v == "sat":
                out["records"].append({"kind": "violation", "key": f"reserved-variable-name|{nm}", "tag": tag,
                                       "what": f"renaming the variable w to '{nm}' changes E(y) at n={k}: {at_n(a, k)} becomes {at_n(b, k)} (closed form {str(b)[:100]})", "replay": {"text": text, "name": nm, "n": k}})
                break
    return out


def main():
    run = Run("C19", "translation_validation")
    work = []
    ex = expressions(run.quick, run.seed)
    for i in range(0, len(ex), 40):
        work.append((job_expr, ex[i:i + 40], f"expr/{i}"))
    progs = families.corpus() + families.corpus("corpus_class") + families.corpus("corpus_guard") + families.corpus("corpus_sym") + families.corpus("corpus_text")
    progs += families.generated(run.quick, run.seed, count=(40 if run.quick else 400))
    for j, (pid, text, goals) in enumerate(progs):
        work.append((job_rewrite, {"id": pid, "text": text, "goals": [g for g in goals if g != "@vars"], "N": 3, "closed_forms": (not run.quick) or pid.startswith("x")}, f"rewrite/{pid}"))
    work.append((job_reject, None, "reject"))
    work.append((job_rename, None, "rename"))
    if run.args.only:
        work = [w for w in work if run.args.only in w[2]]

    def dispatch(i):
        f, arg, _ = work[i]
        return f(arg)
    results = jobs.run_jobs(dispatch, [(i,) for i in range(len(work))], timeout=300 if run.quick else 1200)
    run.notes.append({"slowest_jobs": jobs.slowest(work, lambda w: w[2])})
    checked = muts = variants = nprog = rejected = 0
    for (f, arg, name), (st, val) in zip(work, results):
        if st != "ok":
            run.job_failed(name, st, val)
            continue
        run.add_stats(val["stats"])
        checked += val["checked"]
        muts += val["mutants"]
        variants += val.get("variants", 0)
        rejected += val.get("rejected", 0)
        nprog += 1 if val.get("variants") else 0
        for r in val.get("refusals", []):
            run.refusal(r)
        for r in val["records"]:
            if r["kind"] == "violation":
                run.violation(r["key"], r["what"], r["replay"])
            elif r["kind"] == "harness":
                run.harness_error(f"{r['tag']}: {r['why']}")
            else:
                run.inconc(f"{r['tag']}: {r['why']}")
    try:
        sample_prog = parse_text(progs[0][1])
        run.sample({"program": progs[0][0], "spelling_all": to_text(sample_prog, **STYLES[-1][1])[:600], "expressions": ex[:8]})
    except Exception:  # noqa
        run.sample({"expressions": ex[:8]})
    run.functions = ["inputparser.parser:Parser.parse_string (Lark LALR grammar syntax.lark)", "inputparser.arithmetic_transformer:ArithmeticToStringTransformer", "inputparser.structure_transformer:StructureTransformer",
                     "program.assignment.poly_assignment:PolyAssignment.__init__", "utils.expressions:float_to_rational"]
    run.bounds = {"expressions": f"{len(ex)} texts from the operator grammar (+ - * / **, signs, parentheses, depth <= 3), variables symbolic",
                  "spellings": [s[0] for s in STYLES], "programs": len(progs), "ill_formed_texts": len(ILL_FORMED), "invalid_probability_vectors": len(BAD_PROBABILITIES),
                  "outside": "the source text itself is not symbolic; texts are enumerated from the rewrite system"}
    run.assumptions = ["Python's own grammar (ast.parse) defines operator precedence", "the harness's own reader (vlib/lang.py) defines what a spelling denotes; it must read every spelling of a program as the same program (harness error otherwise)"]
    run.coverage["ill_formed_rejected"] = rejected
    run.finish(programs=nprog, disagreements_checked=checked, spellings_compared=variants, self_mutants_refuted=muts,
               explanation="expressions: parsed polynomial != Python-precedence value decided by z3 for all variable values; spellings: one-iteration and initial-block test-function expectations of the parsed program vs the denoted program, for all pre-states and parameters; rejection by enumeration")


if __name__ == "__main__":
    main()
