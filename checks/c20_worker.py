"""Worker of C20: executes a *history* (a list of steps) in ONE fresh interpreter process and prints the record of the
last step as JSON.  Invoked as  python -m checks.c20_worker  with the history as JSON on stdin; PYTHONHASHSEED is set
by the caller."""
import contextlib
import io
import json
import os
import re
import sys
import tempfile

sys.path.insert(0, os.environ.get("POLAR_REPO", "/repo"))


def rec_goals(text, goals, opts, sens=None):
    """the GoalsAction path: normalize, RecBuilder, cli.common.get_moment with one shared solver dict, goals in the given order
    (sens = parameter name: the SensitivityAction path, DiffRecBuilder instead of RecBuilder)"""
    import sympy as sp
    from argparse import Namespace
    from symengine import sympify as se
    from vlib import polar_iface
    from program import normalize_program
    from recurrences import RecBuilder
    from cli.common import get_moment
    from program.type import Finite
    rec = {"goals": {}, "exact": {}, "types": {}, "error": None}
    try:
        polar_iface.set_settings(**opts)
        program = normalize_program(polar_iface.parse(text))
        for v, t in program.typedefs.items():
            if isinstance(t, Finite):
                rec["types"][str(v)] = sorted(str(x) for x in t.values)
        if sens:
            from recurrences import DiffRecBuilder
            from symengine import Symbol
            rb = DiffRecBuilder(program, Symbol(sens))
        else:
            rb = RecBuilder(program)
        solvers = {}
        ns = Namespace(solvability_check=False)
        for g in goals:
            try:
                with polar_iface.time_limit(60):
                    m, ex = get_moment(se(g), solvers, rb, ns, program)
                rec["goals"][g] = sp.srepr(sp.sympify(m))
                rec["exact"][g] = bool(ex)
            except Exception as e:  # noqa
                rec["goals"][g] = None
                rec["exact"][g] = f"{type(e).__name__}"
    except Exception as e:  # noqa
        rec["error"] = type(e).__name__
    return rec


def rec_invariants(text, goals, opts):
    import sympy as sp
    from vlib import polar_iface
    from invariants import InvariantIdeal
    r = rec_goals(text, goals, opts)
    r["invariants"] = None
    if r["error"] or any(v is None for v in r["goals"].values()):
        return r
    try:
        cfs = {f"E({g})": sp.sympify(r["goals"][g]) for g in goals}
        with polar_iface.time_limit(120):
            basis = InvariantIdeal(cfs).compute_basis()
        r["invariants"] = sorted(sp.srepr(sp.expand(b)) for b in basis)
    except Exception as e:  # noqa
        r["invariants"] = f"{type(e).__name__}"
    return r


def rec_cli(argv, files):
    """polar.py main() with the given argv; `files` = {name: text} are written to a scratch directory first.
    Record: the printed result lines per benchmark."""
    import polar
    from vlib import polar_iface
    polar_iface.set_settings()
    d = tempfile.mkdtemp(prefix="polar_verif_c20_")
    paths = {}
    for name, text in files.items():
        p = os.path.join(d, name)
        with open(p, "w") as fh:
            fh.write(text)
        paths[name] = p
    argv = [paths.get(a, a) for a in argv]
    buf = io.StringIO()
    err = None
    old = sys.argv
    sys.argv = ["polar.py"] + argv
    try:
        with contextlib.redirect_stdout(buf):
            polar.main()
    except SystemExit:
        pass
    except Exception as e:  # noqa
        err = type(e).__name__
    finally:
        sys.argv = old
        for p in paths.values():
            try:
                os.remove(p)
            except OSError:
                pass
        try:
            os.rmdir(d)
        except OSError:
            pass
    out = re.sub(r"\x1b\[[0-9;]*m", "", buf.getvalue())
    sections = out.split("- Analysis Result -")[1:]
    secs = []
    for s in sections:
        lines = [ln.strip() for ln in s.splitlines() if re.match(r"^\s*(E\(|k\d+\(|c\d+\(|[A-Za-z_][A-Za-z_0-9]* = |.* = 0$|There are not|Solution is)", ln)]
        secs.append(lines)
    return {"cli_sections": secs, "error": err}


def rec_plot(text, monom):
    """PlotAction with the plot classes stubbed out (environment): leaves whatever it leaves in the process"""
    from argparse import Namespace
    from vlib import polar_iface
    import cli.actions.plot_action as pa
    polar_iface.set_settings()
    d = tempfile.mkdtemp(prefix="polar_verif_c20_")
    p = os.path.join(d, "p.prob")
    with open(p, "w") as fh:
        fh.write(text)

    class Stub:
        def __init__(self, *a, **k):
            pass

        def draw(self):
            pass

        def save(self, *a):
            pass
    pa.RunsPlot = Stub
    pa.StatesPlot = Stub
    ns = Namespace(plot=monom, plot_expectation=True, plot_std=True, simulation_iter=2, number_samples=2, states_plot=False, anim_time=1, max_y=None, yscale="linear",
                   anim_iter=False, anim_runs=False, save=False, solvability_check=False)
    err = None
    try:
        with contextlib.redirect_stdout(io.StringIO()), contextlib.redirect_stderr(io.StringIO()):
            pa.PlotAction(ns)(p)
    except Exception as e:  # noqa
        err = type(e).__name__
    finally:
        os.remove(p)
        os.rmdir(d)
    return {"error": err}


def run_step(step):
    k = step["kind"]
    if k == "goals":
        from vlib import polar_iface
        # NOTE: a history does not reset the settings between steps unless the step asks for specific options,
        # exactly like successive analyses through the API / CLI in one process
        return rec_goals(step["text"], step["goals"], step.get("opts", {})) if step.get("reset", True) else rec_goals_noreset(step)
    if k == "sens":
        return rec_goals(step["text"], step["goals"], step.get("opts", {}), sens=step["param"])
    if k == "invariants":
        return rec_invariants(step["text"], step["goals"], step.get("opts", {}))
    if k == "cli":
        return rec_cli(step["argv"], step.get("files", {}))
    if k == "plot":
        return rec_plot(step["text"], step["monom"])
    raise ValueError(k)


def rec_goals_noreset(step):
    """like rec_goals but without touching the settings module first (observes what earlier steps left behind)"""
    from vlib import polar_iface
    saved = polar_iface.set_settings
    polar_iface.set_settings = lambda **kw: None
    try:
        return rec_goals(step["text"], step["goals"], {})
    finally:
        polar_iface.set_settings = saved


def main():
    history = json.load(sys.stdin)
    last = None
    with contextlib.redirect_stderr(io.StringIO()):
        for step in history:
            last = run_step(step)
    print("@@RECORD@@" + json.dumps(last))


if __name__ == "__main__":
    main()
