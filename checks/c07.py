"""C07 -- the reported basis generates all polynomial relations among the goals (up to degree D; exact LRA query)."""
from checks.c06 import main

if __name__ == "__main__":
    main("C07")
