"""C16 -- exponent-lattice bases consist of, and generate, all multiplicative relations.

Rational lists: the oracle is the fundamental theorem of arithmetic with the harness's own trial division;
soundness, independence and completeness are LIA queries over *unbounded* integer vectors (one forall-block for
completeness).  Algebraic lists: each returned vector is an exact algebraic identity decided by z3 over constrained
reals / complex pairs; completeness over a stated box of exponent vectors."""
import itertools
import random
import sys
from fractions import Fraction
from vlib import polar_iface  # noqa
from vlib import smt, jobs
from vlib.findings import Run
from vlib.s2z import Tr, Untranslatable


def factor(m):
    out, d = {}, 2
    while d * d <= m:
        while m % d == 0:
            out[d] = out.get(d, 0) + 1
            m //= d
        d += 1
    if m > 1:
        out[m] = out.get(m, 0) + 1
    return out


def valuations(bases):
    """-> (rows: list of integer vectors nu_p(b_i) per prime p, neg: [b_i < 0])"""
    primes = {}
    for i, b in enumerate(bases):
        for p, e in factor(abs(b.numerator)).items():
            primes.setdefault(p, [0] * len(bases))[i] += e
        for p, e in factor(b.denominator).items():
            primes.setdefault(p, [0] * len(bases))[i] -= e
    return [primes[p] for p in sorted(primes)], [1 if b < 0 else 0 for b in bases]


def relation(z3, e, rows, neg):
    cs = [sum(r[i] * e[i] for i in range(len(e))) == 0 for r in rows]
    if any(neg):
        cs.append(sum(neg[i] * e[i] for i in range(len(e))) % 2 == 0)
    return z3.And(*cs) if cs else z3.BoolVal(True)


def rational_queries(bases, basis, stats, tag):
    """-> list of records"""
    import z3
    recs = []
    k = len(bases)
    rows, neg = valuations(bases)
    r = len(basis)
    e = [z3.Int(f"e{i}") for i in range(k)]
    lam = [z3.Int(f"l{j}") for j in range(r)]
    comb = [sum((lam[j] * basis[j][i] for j in range(r)), z3.IntVal(0)) for i in range(k)]
    # shape
    if any(len(v) != k for v in basis):
        return [{"kind": "violation", "sub": "shape", "what": f"basis vectors of wrong length: {basis}", "witness": None}]
    # Q1 soundness: exists lambda: comb is not a relation
    v, m = smt.decide([z3.Not(relation(z3, comb, rows, neg))], stats, 20000, tag=tag + ":sound")
    if v == "sat":
        w = [sum(int(m.get(f"l{j}", 0)) * basis[j][i] for j in range(r)) for i in range(k)]
        recs.append({"kind": "cex", "sub": "sound", "witness": w})
    elif v != "unsat":
        recs.append({"kind": "inconclusive", "sub": "sound"})
    # Q2 independence
    if r:
        v, m = smt.decide([z3.Or(*[l != 0 for l in lam])] + [c == 0 for c in comb], stats, 20000, tag=tag + ":indep")
        if v == "sat":
            recs.append({"kind": "cex", "sub": "indep", "witness": [int(m.get(f"l{j}", 0)) for j in range(r)]})
        elif v != "unsat":
            recs.append({"kind": "inconclusive", "sub": "indep"})
    # Q3 completeness: exists e: relation(e) and forall lambda: e != comb
    body = z3.Or(*[e[i] != comb[i] for i in range(k)]) if k else z3.BoolVal(False)
    q = z3.ForAll(lam, body) if r else body
    v, m = smt.decide([relation(z3, e, rows, neg), q], stats, 30000, tag=tag + ":complete")
    if v == "sat":
        recs.append({"kind": "cex", "sub": "complete", "witness": [int(m.get(f"e{i}", 0)) for i in range(k)]})
    elif v != "unsat":
        recs.append({"kind": "inconclusive", "sub": "complete"})
    return recs


def exact_product(bases, e):
    p = Fraction(1)
    for b, x in zip(bases, e):
        p *= b ** x
    return p


def in_span(basis, e):
    import z3
    r = len(basis)
    lam = [z3.Int(f"l{j}") for j in range(r)]
    s = z3.Solver()
    for i in range(len(e)):
        s.add(sum((lam[j] * basis[j][i] for j in range(r)), z3.IntVal(0)) == e[i])
    return s.check() == z3.sat


def job_rational(batch):
    import sympy as sp
    from invariants.exponent_lattice import ExponentLattice
    out = {"records": [], "stats": smt.new_stats(), "refusals": [], "checked": 0, "nontrivial": 0}
    for bases in batch:
        name = "[" + ",".join(str(b) for b in bases) + "]"
        try:
            with polar_iface.time_limit(30):
                basis = ExponentLattice([sp.Rational(b.numerator, b.denominator) for b in bases]).compute_basis()
            basis = [[int(x) for x in v] for v in basis]
        except polar_iface.JobTimeout:
            out["refusals"].append({"id": name, "type": "Timeout", "msg": "", "where": ""})
            continue
        except Exception as ex:
            out["refusals"].append({"id": name, **polar_iface.exc_info(ex)})
            continue
        out["checked"] += 1
        if basis:
            out["nontrivial"] += 1
        for r in rational_queries(bases, basis, out["stats"], name):
            if r["kind"] == "inconclusive":
                out["records"].append({"kind": "inconclusive", "tag": f"{name}:{r['sub']}", "why": "solver unknown"})
                continue
            if r["kind"] == "violation":
                out["records"].append({"kind": "violation", "key": f"{name}|shape", "what": r["what"], "replay": {"bases": [str(b) for b in bases], "basis": basis}})
                continue
            w, sub = r["witness"], r["sub"]
            # replay with exact rational arithmetic
            if sub == "sound":
                prod = exact_product(bases, w)
                ok = prod != 1
                what = f"ExponentLattice({name}).compute_basis() = {basis}: the combination {w} is not a relation (product = {prod})"
            elif sub == "indep":
                ok = all(sum(w[j] * basis[j][i] for j in range(len(basis))) == 0 for i in range(len(bases))) and any(w)
                what = f"ExponentLattice({name}).compute_basis() = {basis}: vectors are linearly dependent (coefficients {w})"
            else:
                prod = exact_product(bases, w)
                ok = prod == 1 and not in_span(basis, w)
                what = f"ExponentLattice({name}).compute_basis() = {basis}: {w} is a relation (product = 1) outside the integer span"
            if ok:
                out["records"].append({"kind": "violation", "key": f"{name}|{sub}", "what": what,
                                       "replay": {"bases": [str(b) for b in bases], "basis": basis, "witness": w, "sub": sub}})
            else:
                out["records"].append({"kind": "harness", "tag": f"{name}:{sub}", "why": f"witness {w} did not replay"})
    return out


ALG = ["sqrt(2)", "sqrt(3)", "(1+sqrt(5))/2", "(1-sqrt(5))/2", "I", "-I", "(1+I)/sqrt(2)", "2**(1/3)", "2", "-1", "1/2",
       "1+sqrt(2)", "1-sqrt(2)", "3", "-2", "sqrt(2)/2", "1+I", "1-I"]


def job_algebraic(item):
    """soundness of each returned vector as an exact identity; completeness over the box |e_i| <= B"""
    import sympy as sp
    import z3
    import mpmath
    from invariants.exponent_lattice import ExponentLattice
    names, B = item["bases"], item["B"]
    name = "[" + ", ".join(names) + "]"
    out = {"records": [], "stats": smt.new_stats(), "refusals": [], "checked": 0, "nontrivial": 0}
    bases = [sp.sympify(s) for s in names]
    try:
        with polar_iface.time_limit(item.get("timeout", 120)):
            basis = ExponentLattice(bases).compute_basis()
        basis = [[int(x) for x in v] for v in basis]
    except polar_iface.JobTimeout:
        out["refusals"].append({"id": name, "type": "Timeout", "msg": "", "where": ""})
        return out
    except Exception as ex:
        out["refusals"].append({"id": name, **polar_iface.exc_info(ex)})
        return out
    out["checked"] = 1
    out["nontrivial"] = 1 if basis else 0

    def is_relation(e):
        """exact: z3 decides prod != 1 under the defining constraints of the algebraic numbers"""
        t = Tr()
        acc = (z3.RealVal(1), None)
        try:
            for b, x in zip(bases, e):
                if x == 0:
                    continue
                bb = t.tr(b)
                if x < 0:
                    bb = t.inv(bb)
                acc = t.mul(acc, t.ipow(bb, abs(x)))
        except Untranslatable:
            return None
        im = acc[1] if acc[1] is not None else z3.RealVal(0)
        v, _ = smt.decide(t.constraints() + [z3.Or(acc[0] != 1, im != 0)], out["stats"], 20000, tag=f"{name}:rel{e}", keep_sample=True)
        if v == "unsat":
            v2, _ = smt.decide(t.constraints(), None, 20000)  # twin: the defining constraints are satisfiable
            return True if v2 == "sat" else None
        if v == "sat":
            return False
        return None

    k = len(bases)
    for v in basis:
        if len(v) != k:
            out["records"].append({"kind": "violation", "key": f"{name}|shape", "what": f"vector {v} has wrong length", "replay": {"bases": names, "basis": basis}})
            return out
        r = is_relation(v)
        if r is False:
            val = sp.N(sp.prod([b ** x for b, x in zip(bases, v)]), 30)
            if abs(complex(val) - 1) > 1e-12:
                out["records"].append({"kind": "violation", "key": f"{name}|sound", "what": f"ExponentLattice({name}).compute_basis() = {basis}: vector {v} is not a relation (product = {val})",
                                       "replay": {"bases": names, "basis": basis, "witness": v}})
            else:
                out["records"].append({"kind": "inconclusive", "tag": f"{name}:sound{v}", "why": "solver says not a relation but numerically 1"})
        elif r is None:
            out["records"].append({"kind": "inconclusive", "tag": f"{name}:sound{v}", "why": "solver unknown"})
    # independence
    if basis:
        lam = [z3.Int(f"l{j}") for j in range(len(basis))]
        comb = [sum((lam[j] * basis[j][i] for j in range(len(basis))), z3.IntVal(0)) for i in range(k)]
        v, m = smt.decide([z3.Or(*[l != 0 for l in lam])] + [c == 0 for c in comb], out["stats"], 20000, tag=name + ":indep")
        if v == "sat":
            out["records"].append({"kind": "violation", "key": f"{name}|indep", "what": f"basis {basis} of {name} is linearly dependent", "replay": {"bases": names, "basis": basis}})
    # completeness over the box
    mp = mpmath.mp
    mp.dps = 40
    vals = [complex(sp.N(b, 40)) for b in bases]
    mvals = [mpmath.mpmathify(sp.N(b, 40)) for b in bases]
    for e in itertools.product(range(-B, B + 1), repeat=k):
        if not any(e) or e < tuple(-x for x in e):
            continue
        pr = mpmath.mpf(1)
        for mv, x in zip(mvals, e):
            pr = pr * mv ** x
        if abs(pr - 1) > mpmath.mpf(10) ** -20:
            continue  # numerically far from 1: certainly not a relation (40-digit arithmetic; stated prefilter)
        r = is_relation(list(e))
        if r is None:
            out["records"].append({"kind": "inconclusive", "tag": f"{name}:box{e}", "why": "solver unknown"})
            continue
        if r and not in_span(basis, list(e)):
            out["records"].append({"kind": "violation", "key": f"{name}|complete",
                                   "what": f"ExponentLattice({name}).compute_basis() = {basis}: {list(e)} is an exact relation outside the integer span",
                                   "replay": {"bases": names, "basis": basis, "witness": list(e)}})
            break
    return out


def rational_lists(quick, seed):
    vals = []
    rng = range(-2, 3) if quick else range(-3, 4)
    for a in rng:
        for b in rng:
            for c in (range(-1, 2) if quick else range(-2, 3)):
                f = Fraction(2) ** a * Fraction(3) ** b * Fraction(5) ** c
                vals += [f, -f]
    vals = sorted(set(vals))
    rnd = random.Random(f"c16-{seed}")
    lists = []
    # all singletons and a seeded sample of pairs / triples (thorough: many more; quadruples too)
    lists += [[v] for v in vals]
    npairs, ntriples, nquads = (500, 500, 0) if quick else (6000, 10000, 3000)
    for _ in range(npairs):
        lists.append([rnd.choice(vals), rnd.choice(vals)])
    for _ in range(ntriples):
        lists.append([rnd.choice(vals), rnd.choice(vals), rnd.choice(vals)])
    for _ in range(nquads):
        lists.append([rnd.choice(vals) for _ in range(4)])
    # mechanisms that must always be present
    F = Fraction
    lists += [[F(4), F(8)], [F(4), F(1, 2)], [F(-4), F(8)], [F(9, 4), F(3, 2)], [F(1), F(2)], [F(1)], [F(-1)], [F(-1), F(-1)], [F(2), F(1, 2)],
              [F(1), F(-1)], [F(2), F(3)], [F(6), F(2), F(3)], [F(-2), F(4)], [F(-8), F(-2)], [F(2), F(2)], [F(12), F(18), F(2, 3)], [F(1), F(1)]]
    seen, out = set(), []
    for l in lists:
        k = tuple(l)
        if k not in seen:
            seen.add(k)
            out.append(l)
    return out


def algebraic_lists(quick, seed):
    rnd = random.Random(f"c16a-{seed}")
    must = [["I", "-I"], ["sqrt(2)", "sqrt(3)"], ["1+sqrt(2)", "1-sqrt(2)", "3"], ["(1+sqrt(5))/2", "(1-sqrt(5))/2"], ["sqrt(2)", "2"], ["I", "-1"],
            ["2**(1/3)", "2"], ["sqrt(2)", "sqrt(2)/2"], ["(1+I)/sqrt(2)", "I"], ["1+I", "1-I", "2"], ["sqrt(2)", "1/2", "I"],
            # roots of unity next to a non-integer just outside the unit circle (the height bound of the LLL path depends on the
            # leading coefficient of the minimal polynomial there), and far from it
            ["I", "129/128"], ["I", "-I", "101/100"], ["I", "3/2"], ["-I", "1001/1000", "I"]]
    n = 10 if quick else 150
    out = list(must)
    for _ in range(n):
        k = rnd.choice([2, 2, 3])
        out.append([rnd.choice(ALG) for _ in range(k)])
    seen, res = set(), []
    for l in out:
        if tuple(l) not in seen and not all(sympy_is_rational(x) for x in l):
            seen.add(tuple(l))
            res.append(l)
    return res


def sympy_is_rational(s):
    return not any(t in s for t in ("sqrt", "I", "**"))


def main():
    run = Run("C16", "other")
    # translator validation: the repo's own six test lists must satisfy the oracle's reading (harness error otherwise)
    import z3
    F = Fraction
    for bases, expected in (([F(2), F(1, 2)], [[1, 1]]), ([F(1), F(-1)], [[1, 0], [0, -2]])):
        recs = rational_queries(bases, expected, None, "validation")
        if recs:
            run.harness_error(f"oracle disagrees with tests/test_exponent_lattice.py on {bases}: {recs}")
    rl = rational_lists(run.quick, run.seed)
    if run.args.only:
        rl = [l for l in rl if run.args.only in "[" + ",".join(map(str, l)) + "]"]
    bs = 40
    batches = [rl[i:i + bs] for i in range(0, len(rl), bs)]
    results = jobs.run_jobs(job_rational, [(b,) for b in batches], timeout=600)
    al = algebraic_lists(run.quick, run.seed) if not run.args.only else []
    B = 3 if run.quick else 5
    results2 = jobs.run_jobs(job_algebraic, [{"bases": l, "B": B, "timeout": 120} for l in al], timeout=400)
    checked = nontriv = 0
    for src, (st, val) in [(b, r) for b, r in zip(batches, results)] + [(l, r) for l, r in zip(al, results2)]:
        if st != "ok":
            run.job_failed(str(src)[:80], st, val)
            continue
        run.add_stats(val["stats"])
        checked += val["checked"]
        nontriv += val["nontrivial"]
        for r in val["refusals"]:
            run.refusal(r)
        for r in val["records"]:
            if r["kind"] == "violation":
                run.violation(r["key"], r["what"], r["replay"])
            elif r["kind"] == "harness":
                run.harness_error(f"{r['tag']}: {r['why']}")
            else:
                run.inconc(f"{r['tag']}: {r['why']}")
    # self-mutants: a deliberately wrong basis must be refuted by the same queries
    muts = 0
    for bases, wrong, sub in (([F(4), F(8)], [[-1, 1]], "sound"), ([F(4), F(8)], [], "complete"), ([F(2), F(1, 2)], [[2, 2]], "complete"),
                              ([F(-1)], [[1]], "sound"), ([F(2), F(1, 2)], [[1, 1], [2, 2]], "indep")):
        recs = rational_queries(bases, wrong, None, "mutant")
        if not any(r.get("sub") == sub and r["kind"] == "cex" for r in recs):
            run.harness_error(f"self-mutant not refuted: bases {bases} basis {wrong} expected {sub} counterexample")
        muts += 1
    run.sample({"bases": "[4, 8]", "queries": ["soundness: exists lambda in Z^r: sum lambda_j v_j violates (sum e_i nu_p(b_i) = 0 for all p, parity of negatives even)",
                                               "independence: exists lambda != 0: sum lambda_j v_j = 0", "completeness: exists e in Z^k: relation(e) and forall lambda in Z^r: e != sum lambda_j v_j"]})
    run.functions = ["invariants.exponent_lattice:ExponentLattice.compute_basis/is_trivially_empty/compute_basis_rational/compute_basis_kauers/_all_in_lattice",
                     "utils.algebraic_numbers:faccin_bound/algebraic_number_equals_const", "utils.expressions:are_coprime"]
    run.bounds = {"rational_lists": f"{len(rl)} lists of length <= {3 if run.quick else 4} over +-2^a 3^b 5^c; exponent vectors and integer combinations UNBOUNDED (LIA, one forall block)",
                  "algebraic_lists": f"{len(al)} lists over {ALG}; completeness only over the box |e_i| <= {B} after a 40-digit numeric prefilter",
                  "outside": "lists longer than stated; algebraic completeness outside the box"}
    run.assumptions = ["fundamental theorem of arithmetic with the harness's own trial division is the oracle for rational lists",
                       "algebraic numbers are encoded as real/complex-pair variables constrained by defining polynomial and sign"]
    run.finish(explanation="per list three LIA queries (soundness / independence / completeness with a universal block) over unbounded integer vectors; algebraic lists by exact NRA identities",
               evaluations=checked, distinct_nontrivial=nontriv, rule="distinct base lists; non-trivial = the real code returned a non-empty basis",
               self_mutants_refuted=muts, exhaustive=False)


if __name__ == "__main__":
    main()
