"""C01 -- closed-form moments equal the exact expected value at every n (bounded: n <= N; all symbol values)."""
import os
import sys
import time
from vlib import polar_iface  # noqa  (puts /repo on the path)
from vlib import smt, jobs, families
from vlib.findings import Run
from vlib.lang import parse_text, LangError
from vlib.sem import Unsupported
from vlib.s2z import at_n, Untranslatable
from vlib import momentcheck as mc


def job(item):
    """one program: real pipeline for every goal, reference semantics k = 0..N, one query per (goal, k)"""
    import sympy as sp
    pid, text, goals, N, opts = item["id"], item["text"], item["goals"], item["N"], item.get("opts", {})
    out = {"id": pid, "records": [], "stats": smt.new_stats(), "refusals": [], "skipped": None, "checked": 0,
           "t_polar": 0.0, "t_oracle": 0.0, "exact_flags": {}}
    try:
        prog = parse_text(text)
    except LangError as e:
        out["skipped"] = f"own reader: {e}"
        return out
    if goals == ["@vars"]:
        goals = sorted(v for v in prog.assigned_vars() if not v.startswith("_"))[:3]
    t0 = time.time()
    res = polar_iface.closed_forms(text, goals, per_goal_timeout=item.get("goal_timeout", 60), **opts)
    out["t_polar"] = time.time() - t0
    if res["exc"]:
        out["refusals"].append({"id": pid, "stage": "normalize", **res["exc"]})
        return out
    good = []
    for g in goals:
        r = res["goals"].get(g, {})
        if "cf" in r:
            good.append(g)
            out["exact_flags"][g] = bool(r["exact"])
        elif "exc" in r:
            out["refusals"].append({"id": pid, "goal": g, **r["exc"]})
        else:
            out["refusals"].append({"id": pid, "goal": g, "type": "Timeout", "msg": "", "where": ""})
    if not good:
        return out
    t0 = time.time()
    try:
        I, seqs = mc.oracle_sequences(prog, good, N, max_paths=item.get("max_paths", 20000))
    except (Unsupported, ZeroDivisionError) as e:
        out["skipped"] = f"oracle: {type(e).__name__} {e}"
        return out
    out["t_oracle"] = time.time() - t0
    twin_done = False
    for g in good:
        cf = sp.sympify(res["goals"][g]["cf"])
        for k in range(N + 1):
            tag = f"{pid}:{g}:n={k}"
            try:
                ek = at_n(cf, k)
                verdict, model, info = mc.compare(ek, I, seqs[g][k], out["stats"], item.get("q_timeout", 60000), tag,
                                                  xcheck=item.get("xcheck", False) and k == 1)
            except (Untranslatable, NotImplementedError) as e:
                out["records"].append({"kind": "inconclusive", "tag": tag, "why": f"translation: {e}"[:160]})
                continue
            out["checked"] += 1
            if not twin_done and k >= 1:
                twin_done = True
                if mc.twin(I, ek, None) != "sat":
                    out["records"].append({"kind": "harness", "tag": tag, "why": "reachability twin not sat"})
                # self-mutant: a deliberately wrong reference (exact expectation + 1) must be refuted by the same encoding
                mv, _, _ = mc.compare(ek + 1, I, seqs[g][k], None, 20000)
                out["mutants"] = out.get("mutants", 0) + 1
                if mv != "sat":
                    out["records"].append({"kind": "harness", "tag": tag, "why": f"self-mutant not refuted: {mv}"})
            if verdict == "unknown":
                out["records"].append({"kind": "inconclusive", "tag": tag, "why": "solver unknown/timeout"})
            elif verdict == "sat":
                try:
                    rp = mc.replay(prog, g, k, model, ek)
                except Exception as e:  # noqa
                    out["records"].append({"kind": "inconclusive", "tag": tag, "why": f"replay failed: {type(e).__name__}: {e}"[:200]})
                    continue
                if rp["reproduced"]:
                    out["records"].append({"kind": "violation", "key": f"{pid}|E({g})", "tag": tag, "goal": g,
                                           "what": f"E({g}) at n={k}: Polar {rp['polar']} vs exact {rp['oracle']} at {rp['values']}"
                                                   f" (closed form {str(cf)[:120]}; exact flag {res['goals'][g]['exact']})",
                                           "replay": {"text": text, "goal": g, "opts": opts, **rp, "closed_form": str(cf)}})
                    break  # one witness per goal
                else:
                    out["records"].append({"kind": "harness", "tag": tag, "why": f"model did not replay: {rp}"[:300]})
    return out


def build_items(run):
    N = 4 if run.quick else 6
    items = []
    # corpus_neg: programs OUTSIDE the documented class (branching on values that become continuous / unbounded): Polar may refuse
    # them, but an accepted one must be answered correctly ("a refusal never takes the form of a wrong result")
    for pid, text, goals in families.corpus() + families.corpus("corpus_class") + families.corpus("corpus_neg") + families.symbolic_templates(run.quick, run.seed):
        items.append({"id": pid, "text": text, "goals": goals, "N": N, "goal_timeout": 40})
    for pid, text, goals in families.repo_benchmarks(run.quick, run.seed):
        items.append({"id": pid, "text": text, "goals": goals, "N": N, "goal_timeout": 40})
    for pid, text, goals in families.generated(run.quick, run.seed):
        items.append({"id": pid, "text": text, "goals": goals, "N": N, "goal_timeout": 20 if run.quick else 60})
    if run.args.only:
        items = [i for i in items if run.args.only in i["id"]]
    for i, it in enumerate(items):
        it["xcheck"] = (i % 10 == 0)
    return items, N


def collect(run, results, items):
    programs = checked = 0
    for it, (st, val) in zip(items, results):
        if st != "ok":
            run.job_failed(it['id'], st, val)
            continue
        run.add_stats(val["stats"])
        for r in val["refusals"]:
            run.refusal(r)
        if val["skipped"]:
            run.inconc(f"{it['id']}: outside the oracle ({val['skipped']})")
            continue
        if val["checked"]:
            programs += 1
            checked += val["checked"]
            run.coverage["self_mutants_refuted"] = run.coverage.get("self_mutants_refuted", 0) + val.get("mutants", 0)
        for r in val["records"]:
            if r["kind"] == "violation":
                run.violation(r["key"], r["what"], r["replay"])
            elif r["kind"] == "harness":
                run.harness_error(f"{r['tag']}: {r['why']}")
            else:
                run.inconc(f"{r['tag']}: {r['why']}")
        if val["checked"] and len(run.samples) < 6:
            run.sample({"program": it["id"], "goals": it["goals"], "text": it["text"][:400], "queries": val["checked"]})
    return programs, checked


def main():
    run = Run("C01", "translation_validation")
    if run.args.replay:
        return replay_file(run)
    items, N = build_items(run)
    results = jobs.run_jobs(job, items, timeout=300 if run.quick else 600)
    run.notes.append({"slowest_jobs": jobs.slowest(items, lambda it: it["id"])})
    programs, checked = collect(run, results, items)
    run.functions = ["inputparser.parser:Parser.parse_string", "program.transformer:normalize_program",
                     "recurrences.rec_builder:RecBuilder.get_recurrences", "recurrences.solver:RecurrenceSolver.get",
                     "recurrences.solver.acyclic_solver:AcyclicSolver", "recurrences.solver.cyclic_solver:CyclicSolver"]
    run.bounds = {"n_max": N, "family": "corpus/*.prob + repo benchmarks within the oracle + generated family (vlib/families.py)",
                  "outside": "TruncNormal, Sin/Cos/Exp, conditions on continuous draws, n > N (see C03+C04 for all n)"}
    run.assumptions = ["probabilities in [0,1], Categorical parameters sum to 1, scale parameters > 0, a < b",
                       "every denominator of the reported closed form is non-zero (generic parameters)",
                       "reference moments of the ten families (vlib/distref.py) and the loop semantics (vlib/sem.py) are the trusted base",
                       "decimal literals denote their decimal value"]
    run.finish(programs=programs, disagreements_checked=checked,
               explanation="each (program, goal, n) is one z3 query: closed form at n != k-step reference expectation, over all symbol values")


def replay_file(run):
    import json
    import sympy as sp
    obj = json.load(open(run.args.replay))
    text, g, k = obj["text"], obj["goal"], obj["n"]
    res = polar_iface.closed_forms(text, [g], **obj.get("opts", {}))
    cf = sp.sympify(res["goals"][g]["cf"])
    from fractions import Fraction
    vals = {a: Fraction(b) for a, b in obj["values"].items()}
    pv = mc.eval_sympy_exact(at_n(cf, k), vals)
    ov = mc.oracle_value(parse_text(text), g, k, vals)
    print(f"E({g}) at n={k}: Polar {pv}  exact {ov}  values {obj['values']}")
    if mc.values_differ(pv, ov):
        print(f"VIOLATION property=C01 replay={run.args.replay}")
        sys.exit(1)
    sys.exit(0)


if __name__ == "__main__":
    main()
