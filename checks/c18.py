"""C18 -- loops within the documented restrictions are accepted and analysable.

(Q1) solver-decided kernel: the effective/defective classification (Graph.get_defective_nodes,
is_variable_in_nonlinear_cycle, get_reachable_variables) against a declarative specification for ALL graphs with 3 nodes
and all edge labellings (per-path symbolic execution of the real methods, z3 closes every path); 4 nodes with 8
symbolic edges in the thorough tier.  (Q2) atom kernel: get_normalized / to_arithm equivalent to the comparison on the
type for all comparison operators and finite types.  (Q3) the documented class is *enumerated*: every program of the
generated family and of the corpus is inside the class by construction, so a refusal is a violation (known refusal
mechanisms are listed by call site in known_findings.json); this leg is an enumeration of shapes, not a solver verdict."""
import itertools
import random
import re
import sys
from fractions import Fraction
from vlib import polar_iface  # noqa
from vlib import smt, jobs, families
from vlib.findings import Run
from vlib import pathfork as pf


# ------------------------------------------------------------------ Q1 graph kernel

def closure(z3, adj, V):
    R = [[adj[i][j] > 0 for j in range(V)] for i in range(V)]
    steps = 1
    while steps < V:
        R = [[z3.Or(R[i][j], *[z3.And(R[i][m], R[m][j]) for m in range(V)]) for j in range(V)] for i in range(V)]
        steps *= 2
    return R


def spec_defective(z3, adj, V):
    R = closure(z3, adj, V)
    bad = []
    for i in range(V):
        cs = []
        for v in range(V):
            for u in range(V):
                on_cycle = z3.And(adj[v][u] == 2, z3.BoolVal(True) if u == v else R[u][v])
                cs.append(z3.And(on_cycle, z3.BoolVal(True) if i == v else R[v][i]))
        bad.append(z3.Or(*cs))
    return bad


def spec_in_nl_cycle(z3, adj, V, v):
    R = closure(z3, adj, V)
    Rr = [[z3.BoolVal(True) if i == j else R[i][j] for j in range(V)] for i in range(V)]
    cs = []
    for s in range(V):
        for e in range(V):
            cs.append(z3.And(adj[s][e] == 2, Rr[e][v], Rr[v][s]))
    return z3.Or(*cs)


def job_graph(item):
    import z3
    from utils.graph import Graph
    V, fixed, symbolic = item["V"], item["fixed"], item["symbolic"]
    out = {"records": [], "stats": smt.new_stats(), "paths": 0, "checked": 0, "mutants": 0}
    zadj = [[None] * V for _ in range(V)]
    assume = []
    for i in range(V):
        for j in range(V):
            if (i, j) in fixed:
                zadj[i][j] = z3.IntVal(fixed[(i, j)])
            else:
                zadj[i][j] = z3.Int(f"a{i}{j}")
                assume += [zadj[i][j] >= 0, zadj[i][j] <= 2]
    bad_spec = spec_defective(z3, zadj, V)
    nl_spec = [spec_in_nl_cycle(z3, zadj, V, v) for v in range(V)]
    R = closure(z3, zadj, V)

    def mkgraph():
        g = Graph(V)
        for i in range(V):
            g.add_node(i)
        g.adj = [[(fixed[(i, j)] if (i, j) in fixed else pf.SV(zadj[i][j])) for j in range(V)] for i in range(V)]
        return g

    def run(method, arg=None):
        def fn():
            g = mkgraph()
            return getattr(g, method)() if arg is None else getattr(g, method)(arg)
        return fn

    def close(ctx, prop, tag, what):
        v, model = smt.decide(assume + ctx.pc + [z3.Not(prop)], out["stats"], 20000, tag=tag, keep_sample=(out["checked"] < 2))
        out["checked"] += 1
        if v == "sat":
            # replay on the concrete graph
            conc = [[int(model.get(f"a{i}{j}", 0)) if (i, j) not in fixed else fixed[(i, j)] for j in range(V)] for i in range(V)]
            out["records"].append({"kind": "cex", "what": what, "adj": conc, "tag": tag})
        elif v != "unsat":
            out["records"].append({"kind": "inconclusive", "tag": tag, "why": "solver unknown"})

    for ctx, res in pf.explore(run("get_defective_nodes"), assume):
        out["paths"] += 1
        if isinstance(res, Exception):
            out["records"].append({"kind": "inconclusive", "tag": "get_defective_nodes", "why": f"raised {type(res).__name__}: {res}"[:120]})
            continue
        prop = z3.And(*[(bad_spec[i] if i in res else z3.Not(bad_spec[i])) for i in range(V)])
        close(ctx, prop, f"defective:V={V}", "get_defective_nodes")
        if out["mutants"] == 0 and len(res) >= 1:
            wrong = set(res) - {min(res)}
            mprop = z3.And(*[(bad_spec[i] if i in wrong else z3.Not(bad_spec[i])) for i in range(V)])
            mv, _ = smt.decide(assume + ctx.pc + [z3.Not(mprop)], None, 10000)
            out["mutants"] += 1
            if mv != "sat":
                out["records"].append({"kind": "harness", "tag": "graph", "why": "self-mutant (one node dropped from the result) not refuted"})
    if item.get("all_methods"):
        for v in range(V):
            for ctx, res in pf.explore(run("is_variable_in_nonlinear_cycle", v), assume):
                out["paths"] += 1
                if isinstance(res, Exception):
                    out["records"].append({"kind": "inconclusive", "tag": "is_variable_in_nonlinear_cycle", "why": f"raised {type(res).__name__}"})
                    continue
                close(ctx, nl_spec[v] if res else z3.Not(nl_spec[v]), f"nl-cycle:V={V}:v={v}", f"is_variable_in_nonlinear_cycle({v})")
            for ctx, res in pf.explore(run("get_reachable_variables", v), assume):
                out["paths"] += 1
                if isinstance(res, Exception):
                    out["records"].append({"kind": "inconclusive", "tag": "get_reachable_variables", "why": f"raised {type(res).__name__}"})
                    continue
                prop = z3.And(*[((z3.BoolVal(True) if i == v else R[v][i]) if i in res else z3.Not(z3.BoolVal(True) if i == v else R[v][i])) for i in range(V)])
                close(ctx, prop, f"reachable:V={V}:v={v}", f"get_reachable_variables({v})")
    # replay counterexamples concretely
    final = []
    for r in out["records"]:
        if r["kind"] != "cex":
            final.append(r)
            continue
        g = Graph(V)
        for i in range(V):
            g.add_node(i)
        g.adj = [row[:] for row in r["adj"]]
        got = sorted(g.get_defective_nodes())
        # declarative reference on the concrete graph
        reach = [[r["adj"][i][j] > 0 for j in range(V)] for i in range(V)]
        for k in range(V):
            for i in range(V):
                for j in range(V):
                    if reach[i][k] and reach[k][j]:
                        reach[i][j] = True
        want = sorted({i for i in range(V) for v in range(V) for u in range(V)
                       if r["adj"][v][u] == 2 and (u == v or reach[u][v]) and (i == v or reach[v][i])})
        if r["what"] == "get_defective_nodes" and got == want:
            final.append({"kind": "harness", "tag": r["tag"], "why": f"counterexample graph {r['adj']} did not replay"})
        else:
            final.append({"kind": "violation", "key": f"graph|{r['what']}|{r['adj']}", "tag": r["tag"],
                          "what": f"Graph.{r['what']} on adjacency {r['adj']} disagrees with the specification (defective nodes: got {got}, a variable is defective iff it lies on a cycle with a non-linear edge or is reachable from one: {want})",
                          "replay": {"adj": r["adj"], "method": r["what"], "got": got, "want": want}})
    out["records"] = final
    return out


# ------------------------------------------------------------------ Q2 atom kernel

def job_atoms(item):
    import z3
    import symengine
    from program.condition import Atom
    from program.type import Finite
    from vlib.lang import read_cond
    from vlib.qpoly import QPoly
    out = {"records": [], "stats": smt.new_stats(), "checked": 0, "paths": 0, "mutants": 0}

    class P:
        def __init__(self, t):
            self.t = t

        def get_type(self, v):
            return self.t if str(v) == "v" else None

    x = z3.Real("v")

    def cz(c):
        k = c[0]
        if k == "true":
            return z3.BoolVal(True)
        if k == "false":
            return z3.BoolVal(False)
        if k == "not":
            return z3.Not(cz(c[1]))
        if k == "and":
            return z3.And(cz(c[1]), cz(c[2]))
        if k == "or":
            return z3.Or(cz(c[1]), cz(c[2]))
        l, r = c[1].to_z3(lambda n: x), c[3].to_z3(lambda n: x)
        return {"==": l == r, "/=": l != r, "<": l < r, "<=": l <= r, ">": l > r, ">=": l >= r}[c[2]]
    for vals in item["types"]:
        t = Finite([str(v) for v in vals], "v")
        dom = z3.Or(*[x == z3.RealVal(str(v)) for v in vals])
        for cop in ("==", "/=", "<", "<=", ">", ">="):
            for c in item["consts"]:
                tag = f"atom:v{cop}{c} on {{{', '.join(map(str, vals))}}}"
                a = Atom("v", cop, str(c))
                orig = cz(read_cond(a))
                try:
                    norm, failed = a.get_normalized(P(t))
                except Exception as e:
                    out["records"].append({"kind": "violation", "key": f"atom|{cop}|refused", "tag": tag,
                                           "what": f"Atom v {cop} {c} over Finite({', '.join(map(str, vals))}) is refused: {type(e).__name__}: {e}",
                                           "replay": {"values": [str(v) for v in vals], "cop": cop, "const": str(c)}})
                    continue
                if failed:
                    out["records"].append({"kind": "inconclusive", "tag": tag, "why": "normalisation reported failed atoms"})
                    continue
                v, model = smt.decide([dom, cz(read_cond(norm)) != orig], out["stats"], 10000, tag=tag + ":normalized", keep_sample=(out["checked"] < 2))
                out["checked"] += 1
                if v == "sat":
                    out["records"].append({"kind": "violation", "key": f"atom|{cop}|{c}|{vals}|normalized", "tag": tag,
                                           "what": f"get_normalized(v {cop} {c}) over Finite({', '.join(map(str, vals))}) = {norm} differs from the comparison at v = {model.get('v')}",
                                           "replay": {"values": [str(v_) for v_ in vals], "cop": cop, "const": str(c), "v": str(model.get("v"))}})
                    continue
                try:
                    ar = norm.to_arithm(P(t))
                    from vlib.lang import expr2q
                    az = expr2q(ar).to_z3(lambda n: x)
                except Exception as e:
                    out["records"].append({"kind": "inconclusive", "tag": tag, "why": f"to_arithm: {type(e).__name__}: {e}"[:120]})
                    continue
                v, model = smt.decide([dom, az != z3.If(orig, z3.RealVal(1), z3.RealVal(0))], out["stats"], 10000, tag=tag + ":indicator", keep_sample=False)
                out["checked"] += 1
                if v == "sat":
                    out["records"].append({"kind": "violation", "key": f"atom|{cop}|{c}|{vals}|indicator", "tag": tag,
                                           "what": f"to_arithm of normalized (v {cop} {c}) over Finite({', '.join(map(str, vals))}) = {ar} is not the indicator at v = {model.get('v')}",
                                           "replay": {"values": [str(v_) for v_ in vals], "cop": cop, "const": str(c), "v": str(model.get("v"))}})
    return out


# ------------------------------------------------------------------ Q3 acceptance (enumeration of shapes)

def nested_reassign(prog):
    """does the program contain an if nested inside a branch of another if whose branches assign a variable of its own
    conditions?  (the mechanism behind the known refusal: the inner _old copy is conditioned by the outer branch)"""
    from vlib.lang import If, Simult, cond_symbols

    def assigned(stmts):
        out = set()
        for s_ in stmts:
            if isinstance(s_, If):
                for b in s_.branches + ([s_.else_branch] if s_.else_branch else []):
                    out |= assigned(b)
            elif isinstance(s_, Simult):
                out |= {a.var for a in s_.assigns}
            else:
                out.add(s_.var)
        return out

    def walk(stmts, depth):
        for s_ in stmts:
            if isinstance(s_, If):
                branches = s_.branches + ([s_.else_branch] if s_.else_branch else [])
                if depth >= 1:
                    cs = set()
                    for c in s_.conds:
                        cs |= cond_symbols(c)
                    if cs & set().union(*[assigned(b) for b in branches]):
                        return True
                for b in branches:
                    if walk(b, depth + 1):
                        return True
        return False
    depth0 = 0 if prog.guard == ("true",) else 1   # a loop guard is folded into an enclosing if
    return walk(prog.body, depth0)


def has_nonlinear_cycle(prog, simple, finite=None):
    """own reading of restriction 3 on the SOURCE program: is there a dependency cycle through an edge that is non-linear
    (a monomial with two non-simple variables, or one non-simple variable of power > 1)?  `simple` = finitely valued / drawn variables."""
    from vlib.lang import If, Simult
    # a drawn variable is "simple" only if every assignment to it in the body is a draw: a variable that is drawn in one
    # branch and computed (x, y = y, x) in another carries the computed value into later monomials
    computed = {a.var for a in prog.all_assigns(prog.body) if a.kind != "dist"}
    simple = {v for v in simple if v in (finite or set()) or v not in computed}
    edges = {}   # (src, dst) -> nonlinear?

    def visit(stmts):
        for s_ in stmts:
            if isinstance(s_, If):
                for b in s_.branches + ([s_.else_branch] if s_.else_branch else []):
                    visit(b)
            elif isinstance(s_, Simult):
                visit(s_.assigns)
            elif s_.kind == "choice":
                for q, _ in s_.payload:
                    for mono in q.t:
                        inf = [(v, p) for v, p in mono if v not in simple]
                        nl = len(inf) > 1 or (len(inf) == 1 and inf[0][1] > 1)
                        for v, p in mono:
                            edges[(v, s_.var)] = edges.get((v, s_.var), False) or nl
            elif s_.kind == "dist":
                for q in s_.payload[1]:
                    for v in q.symbols_deep():
                        edges[(v, s_.var)] = edges.get((v, s_.var), False)
    visit(prog.body)
    nodes = {a for a, b in edges} | {b for a, b in edges}
    reach = {n: {b for (a, b) in edges if a == n} for n in nodes}
    changed = True
    while changed:
        changed = False
        for n in nodes:
            new = set(reach[n])
            for m in list(reach[n]):
                new |= reach.get(m, set())
            if new != reach[n]:
                reach[n] = new
                changed = True
    return any(nl and (a == b or a in reach.get(b, set())) for (a, b), nl in edges.items())


def sig(exc, prog=None):
    msg = re.sub(r"\d+", "#", exc.get("msg", ""))
    m = re.match(r"Can't normalize condition (.*), because (.*)", msg)
    if m:
        kind = "nested-reassign" if (prog is not None and nested_reassign(prog)) else "other"
        msg = f"Can't normalize condition <{kind}>, because {m.group(2)}"
    if exc.get("type") == "KeyError":
        msg = "<variable>"
    m = re.match(r"sorted roots not supported over .*", msg)
    if m:
        msg = "sorted roots not supported over <parametric domain>"
    msg = msg.split("\n")[0][:90]
    return f"refusal|{exc.get('type')}|{exc.get('where')}|{msg}"


def job_accept(item):
    pid, text, goals = item["id"], item["text"], item["goals"]
    out = {"id": pid, "records": [], "stats": smt.new_stats(), "checked": 0, "accepted": 0, "paths": 0, "mutants": 0}
    from vlib.lang import parse_text, LangError
    try:
        prog = parse_text(text)
    except LangError:
        return out
    # "variables initialised" is one of the documented restrictions: a program that tests a variable it never initialised
    # (symbolic initial value in a branch condition or in the guard) is outside the class C18 speaks about
    from vlib.lang import cond_symbols, If
    init_vars = set(prog.assigned_vars(prog.initial))
    tested = set(cond_symbols(prog.guard))
    for a in prog.all_assigns(prog.body):
        tested |= cond_symbols(a.cond)

    def walk(ss):
        for st in ss:
            if isinstance(st, If):
                for c in st.conds:
                    tested.update(cond_symbols(c))
                for b in st.branches:
                    walk(b)
                if st.else_branch:
                    walk(st.else_branch)
    walk(prog.body)
    # ... and so is one that copies such a variable (possibly through other variables) into a tested one
    def rhs_reads(a):
        r = set()
        if a.kind == "choice":
            for v_, p_ in a.payload:
                r |= v_.symbols_deep() | p_.symbols_deep()
        elif a.kind == "dist":
            for q_ in a.payload[1]:
                r |= q_.symbols_deep()
        else:
            r.add(str(a.payload[1]))
        return r
    body_assigns = prog.all_assigns(prog.body)
    tainted = {v for v in prog.assigned_vars(prog.body) if v not in init_vars}
    changed = True
    while changed:
        changed = False
        for a in body_assigns:
            if a.var not in tainted and (rhs_reads(a) & tainted):
                tainted.add(a.var)
                changed = True
    if tested & tainted:
        out["outside"] = 1
        return out
    res = polar_iface.closed_forms(text, [], per_goal_timeout=60)
    out["checked"] += 1
    if res["exc"]:
        if res["exc"]["type"] == "Timeout":
            out["records"].append({"kind": "inconclusive", "tag": pid, "why": "normalisation timeout"})
        else:
            out["records"].append({"kind": "violation", "key": sig(res["exc"], prog), "tag": pid,
                                   "what": f"program inside the documented class is refused: {res['exc']['type']}: {res['exc']['msg'][:120]} at {res['exc']['where']} (witness {pid})",
                                   "replay": {"text": text, **res["exc"]}})
        return out
    out["accepted"] = 1
    program = res["program"]
    eff = {str(v) for v in program.effective_variables}
    # the classification itself: the stored sets must be what the classifier yields on the FINAL program (types inferred),
    # and a program of the class (no non-linear dependency cycle by construction) has no defective variable at all
    try:
        from unsolvable_analysis import SolvabilityChecker
        e2, d2 = SolvabilityChecker.get_variables(program)
        out["checked"] += 1
        if {str(v) for v in d2} != {str(v) for v in program.defective_variables}:
            out["records"].append({"kind": "violation", "key": "classification|stale", "tag": pid,
                                   "what": f"program.defective_variables = {sorted(map(str, program.defective_variables))} but the classifier on the normalised program yields {sorted(map(str, d2))} (witness {pid})",
                                   "replay": {"text": text}})
        elif program.defective_variables and not has_nonlinear_cycle(
                prog, {str(v) for v in program.finite_variables} | {str(v) for v in program.dist_variables} | {str(v) for v in program.func_variables},
                finite={str(v) for v in program.finite_variables}):
            out["records"].append({"kind": "violation", "key": "classification|defective-in-class", "tag": pid,
                                   "what": f"variables {sorted(map(str, program.defective_variables))} of a program without non-linear dependency cycles are classified defective (witness {pid})",
                                   "replay": {"text": text}})
    except Exception as e:  # noqa
        out["records"].append({"kind": "inconclusive", "tag": pid, "why": f"classification: {type(e).__name__}: {e}"[:120]})
    # loop constants of the source (assigned only in the initial block) are part of the documented class as goals
    body_vars = set(prog.assigned_vars(prog.body))
    consts = {v for v in prog.assigned_vars(prog.initial) if v not in body_vars}
    gs = [g for g in goals if all(s in eff or s in consts for s in re.findall(r"[A-Za-z_][A-Za-z_0-9]*", g))]
    res2 = polar_iface.closed_forms(text, gs[:3], per_goal_timeout=item.get("goal_timeout", 30))
    for g in gs[:3]:
        r = res2["goals"].get(g, {})
        out["checked"] += 1
        if "exc" in r:
            out["records"].append({"kind": "violation", "key": sig(r["exc"]), "tag": pid,
                                   "what": f"goal E({g}) over effective variables of an accepted program gets no closed form: {r['exc']['type']}: {r['exc']['msg'][:100]} at {r['exc']['where']} (witness {pid})",
                                   "replay": {"text": text, "goal": g, **r["exc"]}})
        elif "timeout" in r:
            out["records"].append({"kind": "inconclusive", "tag": f"{pid}:{g}", "why": "no closed form within the time budget"})
        elif "cf" in r and len(r["rec"].monomials) > 200:
            out["records"].append({"kind": "inconclusive", "tag": f"{pid}:{g}", "why": f"system with {len(r['rec'].monomials)} monomials (budget 200)"})
    return out


def main():
    run = Run("C18", "other")
    rnd = random.Random(f"c18-{run.seed}")
    work = []
    # Q1: all 3-node graphs: 27 slices (row 0 concrete), 6 symbolic edges each
    for row in itertools.product(range(3), repeat=3):
        fixed = {(0, j): row[j] for j in range(3)}
        work.append((job_graph, {"V": 3, "fixed": fixed, "symbolic": 6, "all_methods": row in ((0, 0, 0), (2, 1, 0), (1, 2, 2))}, f"graph3/{row}"))
    if not run.quick:
        for k in range(40):
            cells = [(i, j) for i in range(4) for j in range(4)]
            rnd.shuffle(cells)
            fixed = {c: rnd.choice([0, 0, 1, 2]) for c in cells[8:]}
            work.append((job_graph, {"V": 4, "fixed": fixed, "symbolic": 8, "all_methods": False}, f"graph4/{k}"))
    # Q2
    F = Fraction
    pool = [F(-2), F(-1), F(-1, 2), F(0), F(1, 2), F(1), F(2), F(3)]
    types = [list(c) for r in (1, 2, 3) for c in itertools.combinations(pool, r)]
    if run.quick:
        rnd.shuffle(types)
        types = types[:30] + [[F(0), F(1)], [F(0), F(1), F(2)], [F(-1, 2), F(1, 2), F(2)]]
    else:
        types += [list(c) for c in itertools.combinations(pool, 4)]
    for i in range(0, len(types), 8):
        work.append((job_atoms, {"types": types[i:i + 8], "consts": [-3, -2, -1, 0, 1, 2, 3, 4]}, f"atoms/{i}"))
    # Q3
    progs = families.corpus() + families.corpus("corpus_sym") + families.corpus("corpus_class") + families.generated(run.quick, run.seed, count=(80 if run.quick else 800))
    for pid, text, goals in progs:
        work.append((job_accept, {"id": pid, "text": text, "goals": goals, "goal_timeout": 20 if run.quick else 60}, f"accept/{pid}"))
    if run.args.only:
        work = [w for w in work if run.args.only in w[2]]

    def dispatch(i):
        f, arg, _ = work[i]
        return f(arg)
    results = jobs.run_jobs(dispatch, [(i,) for i in range(len(work))], timeout=600 if run.quick else 1800)
    run.notes.append({"slowest_jobs": jobs.slowest(work, lambda w: w[2])})
    checked = paths = muts = accepted = nprog = 0
    for (f, arg, name), (st, val) in zip(work, results):
        if st != "ok":
            run.job_failed(name, st, val)
            continue
        run.add_stats(val["stats"])
        checked += val["checked"]
        paths += val.get("paths", 0)
        muts += val.get("mutants", 0)
        accepted += val.get("accepted", 0)
        nprog += 1 if name.startswith("accept/") else 0
        for r in val["records"]:
            if r["kind"] == "violation":
                run.violation(r["key"], r["what"], r["replay"])
            elif r["kind"] == "harness":
                run.harness_error(f"{r['tag']}: {r['why']}")
            else:
                run.inconc(f"{r['tag']}: {r['why']}")
    run.sample({"graph_slice": "row 0 of the 3x3 adjacency concrete, the other six edge labels symbolic in {0,1,2}",
                "spec": "defective(i) <=> exists v,u: adj[v][u] = 2 and (u = v or reach(u,v)) and (i = v or reach(v,i))"})
    run.functions = ["utils.graph:Graph.get_defective_nodes/is_variable_in_nonlinear_cycle/get_reachable_variables/_dfs", "program.condition.atom_cond:Atom.get_normalized/to_arithm",
                     "utils.conditions:get_valid_values", "program.transformer:normalize_program (acceptance)", "recurrences.rec_builder:RecBuilder.get_recurrences (worklist termination)"]
    run.bounds = {"graphs": "ALL graphs with 3 nodes and edge labels in {0,1,2} (27 slices x all feasible paths); thorough: 40 random 4-node backgrounds with 8 symbolic edges",
                  "atoms": f"{len(types)} finite types with <= 3 (thorough 4) values from {{-2,-1,-1/2,0,1/2,1,2,3}}, all six comparison operators, integer constants -3..4",
                  "acceptance": f"{nprog} programs of the documented class (corpus, symbolic templates, class corpus, generated family) -- an enumeration of shapes, NOT a solver verdict",
                  "outside": "acceptance for every program shape of the documented class"}
    run.assumptions = ["floats/ints of the graph are modelled exactly (integers)", "the generated family lies inside the documented class by construction (conditions only over finitely-valued variables, constant parameters up to location/scale, acyclic non-linear dependencies, initialised variables)"]
    run.coverage["paths_closed"] = paths
    run.coverage["programs_accepted"] = accepted
    run.finish(explanation="Q1/Q2: per-path symbolic execution of the real classification / atom code with z3 proxies, every path closed by an unsat query against a declarative specification; Q3: enumeration of programs of the documented class (refusals are violations)",
               evaluations=checked, distinct_nontrivial=paths + nprog, rule="feasible paths of the graph kernel + distinct programs of the class", self_mutants_refuted=muts)


if __name__ == "__main__":
    main()
