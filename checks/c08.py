"""C08 -- distributions report their true moments, support, discreteness and transforms; location/scale rewriting keeps the law."""
import itertools
import sys
from fractions import Fraction
from vlib import polar_iface  # noqa
from vlib import smt, jobs, distref
from vlib.findings import Run
from vlib.qpoly import QPoly
from vlib.lang import arith, expr2q, read_polar, parse_text
from vlib.s2z import Tr, Untranslatable

SYMBOLIC = {  # families whose implementation accepts symbols in get_moment
    "Bernoulli": [["p"]],
    "Uniform": [["a", "b"], ["0", "b"], ["a", "a + w"]],
    "DistExp": [["lam"], ["1/c"]],
    "Categorical": [["p0", "p1", "1 - p0 - p1"], ["p0", "p1", "p2", "1 - p0 - p1 - p2"], ["p0", "1 - p0"]],
}
GRID = {
    "Normal": [["0", "1"], ["1", "4"], ["-2", "1/4"], ["1/2", "2"], ["0.3", "0.09"], ["3", "9"]],
    "Laplace": [["0", "1"], ["1", "2"], ["-1", "1/2"], ["0.5", "0.25"], ["2", "3"]],
    "Gamma": [["1", "1"], ["2", "2"], ["3", "1/2"], ["3/2", "2"], ["0.5", "4"], ["5", "1/3"]],
    "Beta": [["1", "1"], ["2", "3"], ["1/2", "1/2"], ["2", "2", "3"], ["0.5", "1.5"], ["3", "1", "1/2"]],
    "DiscreteUniform": [["0", "1"], ["1", "3"], ["-2", "2"], ["2", "2"], ["0", "4"]],
    "Bernoulli": [["1/2"], ["0.3"], ["0"], ["1"]],
    "Uniform": [["0", "1"], ["-1", "2"], ["0.5", "1.5"]],
    "DistExp": [["1"], ["2"], ["1/2"], ["0.25"]],
    "Categorical": [["1/2", "1/4", "1/4"], ["0.1", "0.9"], ["1"]],
    "TruncNormal": [["0", "1", "-1", "1"], ["5", "1", "4", "6"], ["1", "4", "0", "3"]],
}
KMAX = 8


def mk(family, params):
    from program.distribution import distribution_factory
    return distribution_factory(family, [str(p) for p in params])


def ref_transform(family, P, t, kind):
    """textbook characteristic function (kind='cf') / moment generating function (kind='mgf') as a sympy term"""
    import sympy as sp
    j = sp.I if kind == "cf" else sp.Integer(1)
    s = j * t
    if family == "Bernoulli":
        return 1 - P[0] + P[0] * sp.exp(s)
    if family == "Normal":
        return sp.exp(P[0] * s + P[1] * s ** 2 / 2)
    if family == "Uniform":
        return (sp.exp(s * P[1]) - sp.exp(s * P[0])) / (s * (P[1] - P[0]))
    if family == "DistExp":
        return P[0] / (P[0] - s)
    if family == "Laplace":
        return sp.exp(P[0] * s) / (1 - P[1] ** 2 * s ** 2)
    if family == "Gamma":
        if not sp.sympify(P[0]).is_Integer:
            return None   # non-integer shape: complex powers, outside the encoding
        return (1 - P[1] * s) ** (-P[0])
    if family == "DiscreteUniform":
        a, b = int(P[0]), int(P[1])
        return sum(sp.exp(s * x) for x in range(a, b + 1)) / (b - a + 1)
    if family == "Categorical":
        return sum(p * sp.exp(s * i) for i, p in enumerate(P))
    if family == "Beta":
        # integer shapes: the density x^(a-1) (1-x)^(b-1) / B(a,b) is a polynomial; with I_m(c) = int_0^1 x^m e^(cx) dx,
        # I_0 = (e^c - 1)/c, I_m = e^c/c - (m/c) I_(m-1) (integration by parts); c = s * scale
        a, b = sp.sympify(P[0]), sp.sympify(P[1])
        if not (a.is_Integer and b.is_Integer and a >= 1 and b >= 1):
            return None
        a, b = int(a), int(b)
        c = s * (P[2] if len(P) > 2 else 1)
        im = [(sp.exp(c) - 1) / c]
        for m in range(1, a + b):
            im.append(sp.exp(c) / c - m * im[m - 1] / c)
        B = sp.Rational(sp.factorial(a - 1) * sp.factorial(b - 1), sp.factorial(a + b - 1))
        return sum(sp.binomial(b - 1, j) * (-1) ** j * im[a - 1 + j] for j in range(b)) / B
    return None


def job(item):
    import sympy as sp
    import z3
    family, params, symbolic = item["family"], item["params"], item["symbolic"]
    name = f"{family}({', '.join(params)})"
    out = {"name": name, "records": [], "stats": smt.new_stats(), "refusals": [], "checked": 0, "mutants": 0}
    try:
        d = mk(family, params)
    except Exception as e:
        out["refusals"].append({"id": name, **polar_iface.exc_info(e)})
        return out
    P = [arith(p) for p in params]
    zs = {}

    def zv(nm):
        if nm not in zs:
            zs[nm] = z3.Real(nm)
        return zs[nm]
    side = []
    assume = distref.param_assumptions(family, P, zv, side) + [s[2] for s in side]
    # decimal literals must have been converted exactly
    # ---- Q1 moments
    if family != "TruncNormal":
        for k in range(KMAX + 1):
            tag = f"{name}:moment({k})"
            try:
                with polar_iface.time_limit(60):
                    pm = d.get_moment(k)
                pq = expr2q(pm) if not isinstance(pm, int) else QPoly.const(pm)
                rq = distref.moment(family, P, k)
            except polar_iface.JobTimeout:
                out["refusals"].append({"id": tag, "type": "Timeout", "msg": "", "where": ""})
                continue
            except NotImplementedError as e:
                out["records"].append({"kind": "inconclusive", "tag": tag, "why": f"{e}"[:120]})
                continue
            except Exception as e:
                out["refusals"].append({"id": tag, **polar_iface.exc_info(e)})
                continue
            sd = []
            pz, rz = pq.to_z3(zv, sd), rq.to_z3(zv, sd)
            cons = assume + [s[2] for s in sd]
            v, model = smt.decide(cons + [pz != rz], out["stats"], 30000, tag=tag, xcheck=(k == 3 and symbolic))
            out["checked"] += 1
            if k == 1:
                mv, _ = smt.decide(cons + [pz != rz + 1], None, 10000)
                out["mutants"] += 1
                if mv != "sat":
                    out["records"].append({"kind": "harness", "tag": tag, "why": "self-mutant not refuted (assumptions unsatisfiable?)"})
            if v == "sat":
                vals = {n: Fraction(model.get(n, 0)) for n in zs}
                try:
                    a, b = pq.evalq(vals), rq.evalq(vals)
                except Exception as e:  # noqa
                    out["records"].append({"kind": "inconclusive", "tag": tag, "why": f"replay: {e}"})
                    continue
                if a != b:
                    out["records"].append({"kind": "violation", "key": f"{family}({', '.join(params)})|moment|{k}", "tag": tag,
                                           "what": f"{name}.get_moment({k}) = {pm} evaluates to {a}, true moment {b}" + (f" at {dict((n, str(x)) for n, x in vals.items())}" if vals else ""),
                                           "replay": {"family": family, "params": params, "k": k, "values": {n: str(x) for n, x in vals.items()}, "polar": str(a), "reference": str(b)}})
                else:
                    out["records"].append({"kind": "harness", "tag": tag, "why": "model did not replay"})
            elif v != "unsat":
                out["records"].append({"kind": "inconclusive", "tag": tag, "why": "solver unknown"})
    # ---- Q2 transforms with uninterpreted exp/sin/cos; e^{i m t} on the unit circle
    t = sp.Symbol("t")
    Ps = [sp.sympify(p, locals={n: sp.Symbol(n) for n in ("a", "b", "w", "lam", "c", "p", "p0", "p1", "p2")}) for p in params]
    Ps = [sp.nsimplify(x, rational=True) for x in Ps]
    for kind in ("cf", "mgf"):
        ref = ref_transform(family, Ps, t, kind)
        if ref is None:
            continue
        for tv in ([t, 0, 1, 2, -1] if kind == "cf" else [t, 0, 1, -1]):
            tag = f"{name}:{kind}({tv})"
            if kind == "mgf" and tv != 0 and tv != t:
                try:
                    if not d.mgf_exists_at(sp.Integer(tv)):
                        continue
                except Exception:
                    continue
            try:
                with polar_iface.time_limit(40):
                    pt = getattr(d, kind)(tv if tv is t else sp.Integer(tv))
                pt = sp.sympify(pt)
            except NotImplementedError:
                break
            except polar_iface.JobTimeout:
                out["refusals"].append({"id": tag, "type": "Timeout", "msg": "", "where": ""})
                continue
            except Exception as e:
                out["refusals"].append({"id": tag, **polar_iface.exc_info(e)})
                continue
            if pt.has(sp.beta):
                pt = pt.replace(sp.beta, lambda x, y: sp.gamma(x) * sp.gamma(y) / sp.gamma(x + y))
            if isinstance(pt, sp.Piecewise):
                # Piecewise((1, t == 0), (expr, True)) or Piecewise((expr, t != 0), (value at 0, True)): select by the concrete
                # argument, keep the general branch (the one that mentions t) for symbolic t
                if tv is t:
                    gen = [e for e, c in pt.args if e.has(t)]
                    pt = gen[0] if gen else pt.args[-1][0]
            if tv is t:
                rt = ref
            elif tv == 0:
                rt = sp.Integer(1)   # every transform equals 1 at 0
            else:
                rt = ref.subs(t, tv)
            if pt is sp.nan or pt.has(sp.nan) or pt.has(sp.zoo):
                out["records"].append({"kind": "violation", "key": f"{name}|{kind}|{tv}", "tag": tag,
                                       "what": f"{name}.{kind}({tv}) = {pt}, the transform of the distribution at {tv} is {sp.simplify(rt) if tv is not t else rt}",
                                       "replay": {"family": family, "params": params, "kind": kind, "t": str(tv), "polar": str(pt)}})
                continue
            try:
                c, s_ = z3.Real("cos_t"), z3.Real("sin_t")
                tr = Tr(sym=zv, uf=True, unit={"t": (c, s_)})
                a = tr.tr(pt)
                b = tr.tr(rt)
            except (Untranslatable, Exception) as e:  # noqa
                out["records"].append({"kind": "inconclusive", "tag": tag, "why": f"translation: {type(e).__name__} {e}"[:140]})
                continue
            ai = a[1] if a[1] is not None else z3.RealVal(0)
            bi = b[1] if b[1] is not None else z3.RealVal(0)
            cons = assume + tr.constraints() + [c * c + s_ * s_ == 1]
            if tv is t and family == "Beta":
                cons.append(zv("t") != 0)
            if tv is t and family in ("DiscreteUniform", "Uniform"):
                cons.append(z3.Not(z3.And(c == 1, s_ == 0)))  # t not a multiple of 2 pi (removable singularity handled at t = 0)
            v, model = smt.decide(cons + [z3.Or(a[0] != b[0], ai != bi)], out["stats"], item.get("tq", 30000), tag=tag)
            out["checked"] += 1
            if v == "sat":
                # uninterpreted functions are incomplete: confirm numerically before it counts
                try:
                    pts = [sp.Rational(3, 7), sp.Rational(-5, 4)] if tv is t else [None]
                    diff = 0
                    for x in pts:
                        sub = {sy: sp.Rational(model.get(sy.name, 1)) if sy.name in model else sp.Rational(2, 3) for sy in (pt.free_symbols | rt.free_symbols) if sy != t}
                        e1, e2 = pt.subs(sub), rt.subs(sub)
                        if x is not None:
                            e1, e2 = e1.subs(t, x), e2.subs(t, x)
                        diff = max(diff, abs(complex(sp.N(e1 - e2, 30))))
                except Exception as e:  # noqa
                    out["records"].append({"kind": "inconclusive", "tag": tag, "why": f"numeric confirmation failed: {e}"[:120]})
                    continue
                if diff > 1e-12:
                    out["records"].append({"kind": "violation", "key": f"{name}|{kind}|{tv}", "tag": tag,
                                           "what": f"{name}.{kind}({tv}) = {pt} differs from the transform of the distribution {rt} (numerically by {diff:.3g})",
                                           "replay": {"family": family, "params": params, "kind": kind, "t": str(tv), "polar": str(pt), "reference": str(rt)}})
                else:
                    out["records"].append({"kind": "inconclusive", "tag": tag, "why": "sat under uninterpreted exp/sin/cos but numerically equal (incomplete encoding)"})
            elif v != "unsat":
                out["records"].append({"kind": "inconclusive", "tag": tag, "why": "solver unknown"})
        # ---- Q3 Taylor consistency: k-th series coefficient of the transform at 0 gives the k-th moment
        if family in ("TruncNormal", "Beta"):
            continue
        try:
            with polar_iface.time_limit(60):
                ex = sp.sympify(getattr(d, kind)(t))
                if isinstance(ex, sp.Piecewise):
                    ex = ex.args[-1][0]
                ser = sp.series(ex, t, 0, 5).removeO()
            for k in range(0, 5):
                coeff = sp.simplify(ser.coeff(t, k) * sp.factorial(k) / (sp.I ** k if kind == "cf" else 1))
                pm = d.get_moment(k)
                tag = f"{name}:{kind}-taylor({k})"
                tr = Tr(sym=zv)
                a = tr.tr(coeff)
                pq = expr2q(pm) if not isinstance(pm, int) else QPoly.const(pm)
                sd = []
                pz = pq.to_z3(zv, sd)
                ai = a[1] if a[1] is not None else z3.RealVal(0)
                v, model = smt.decide(assume + tr.constraints() + [s[2] for s in sd] + [z3.Or(a[0] != pz, ai != 0)], out["stats"], 30000, tag=tag, keep_sample=False)
                out["checked"] += 1
                if v == "sat":
                    out["records"].append({"kind": "violation", "key": f"{name}|{kind}-taylor|{k}", "tag": tag,
                                           "what": f"{name}: {k}-th derivative of {kind} at 0 gives {coeff}, get_moment({k}) = {pm}",
                                           "replay": {"family": family, "params": params, "kind": kind, "k": k}})
                elif v != "unsat":
                    out["records"].append({"kind": "inconclusive", "tag": tag, "why": "solver unknown"})
        except polar_iface.JobTimeout:
            out["records"].append({"kind": "inconclusive", "tag": f"{name}:{kind}-taylor", "why": "sympy series timeout"})
        except NotImplementedError:
            pass
        except Exception as e:  # noqa
            out["records"].append({"kind": "inconclusive", "tag": f"{name}:{kind}-taylor", "why": f"{type(e).__name__}: {e}"[:140]})
    # ---- Q4 support and discreteness
    try:
        sup = d.get_support()
        ref = distref.support(family, P)
        disc = d.is_discrete()
        if bool(disc) != (family in distref.DISCRETE):
            out["records"].append({"kind": "violation", "key": f"{name}|is_discrete", "tag": name,
                                   "what": f"{name}.is_discrete() = {disc}", "replay": {"family": family, "params": params}})
        x = z3.Real("x_val")
        inside = []
        import symengine
        for el in sup:
            if isinstance(el, tuple):
                lo, hi = el
                cs = []
                if not (lo == -symengine.oo):
                    cs.append(x >= expr2q(lo).to_z3(zv))
                if not (hi == symengine.oo):
                    cs.append(x <= expr2q(hi).to_z3(zv))
                inside.append(z3.And(*cs) if cs else z3.BoolVal(True))
            else:
                inside.append(x == expr2q(el).to_z3(zv))
        if ref[0] == "set":
            refc = z3.Or(*[x == v.to_z3(zv) for v in ref[1]])
        else:
            cs = []
            if ref[1] is not None:
                cs.append(x >= ref[1].to_z3(zv))
            if ref[2] is not None:
                cs.append(x <= ref[2].to_z3(zv))
            refc = z3.And(*cs) if cs else z3.BoolVal(True)
        v, model = smt.decide(assume + [refc, z3.Not(z3.Or(*inside))], out["stats"], 20000, tag=f"{name}:support")
        out["checked"] += 1
        if v == "sat":
            out["records"].append({"kind": "violation", "key": f"{name}|support", "tag": name,
                                   "what": f"{name}.get_support() = {sup} misses the value {model.get('x_val')} of the true support",
                                   "replay": {"family": family, "params": params, "value": str(model.get("x_val"))}})
        elif v != "unsat":
            out["records"].append({"kind": "inconclusive", "tag": f"{name}:support", "why": "solver unknown"})
    except Exception as e:  # noqa
        out["records"].append({"kind": "inconclusive", "tag": f"{name}:support", "why": f"{type(e).__name__}: {e}"[:140]})
    return out


LOCSCALE = [
    ("normal", "x = 0\ny = 1\nwhile true:\n    y = y + 1 {1/2} y\n    x = Normal(a*y + m, s2)\nend\n", ["x", "y"]),
    ("normal_var", "x = 0\ny = 1\nwhile true:\n    y = 1 {1/2} 2\n    x = Normal(x, y**2)\nend\n", ["x", "y"]),
    ("uniform", "x = 0\ny = 1\nwhile true:\n    y = y + 1 {1/2} y\n    x = Uniform(y, y + w)\nend\n", ["x", "y"]),
    ("uniform2", "x = 0\ny = 1\nwhile true:\n    x = Uniform(a*x, 2*y + 3)\nend\n", ["x", "y"]),
    ("uniform_additive_lower", "x = 0\ny = 1\nwhile true:\n    y = 1 {1/2} 2\n    x = Uniform(y - 1, y + 1)\nend\n", ["x", "y"]),
    ("uniform_additive_both", "x = 0\ny = 1\nwhile true:\n    y = 1 {1/2} 2\n    x = Uniform(c + y - x, 2*y + x + 3)\nend\n", ["x", "y"]),
    ("normal_additive", "x = 0\ny = 1\nwhile true:\n    y = 1 {1/2} 2\n    x = Normal(y - x + 1, y + 1)\nend\n", ["x", "y"]),
    ("laplace_additive", "x = 0\ny = 1\nwhile true:\n    y = 1 {1/2} 2\n    x = Laplace(1 - y + x, 2)\nend\n", ["x", "y"]),
    ("exponential_sum", "x = 0\ny = 1\nwhile true:\n    y = 1 {1/2} 2\n    x = DistExp(1/(y + x**2 + 1))\nend\n", ["x", "y"]),
    ("laplace", "x = 0\ny = 1\nwhile true:\n    y = y + 1 {1/2} y\n    x = Laplace(c*y - x, b)\nend\n", ["x", "y"]),
    ("laplace_scale_sum", "m = 3\nx = 0\ny = 1\nwhile true:\n    y = 1 {1/2} 2\n    x = Laplace(y + m, m + 1)\nend\n", ["x", "y"]),
    ("laplace_scale_variable", "x = 0\ny = 1\nwhile true:\n    y = 1 {1/2} 2\n    x = Laplace(x, y + 1)\nend\n", ["x", "y"]),
    ("normal_variance_sum", "x = 0\ny = 1\nwhile true:\n    y = 1 {1/2} 2\n    x = Normal(x, y + 3/2)\nend\n", ["x", "y"]),
    ("exponential", "x = 0\ny = 1\nwhile true:\n    y = 1 {1/2} 2\n    x = DistExp(1/y)\nend\n", ["x", "y"]),
    ("exponential2", "x = 0\ny = 1\nwhile true:\n    y = 1 {1/2} 2\n    x = DistExp(3/(y + 1))\nend\n", ["x", "y"]),
]


def job_locscale(item):
    """Q5: DistTransformer's 'fixed draw + arithmetic' has the same one-iteration law as the defining primitive"""
    from checks.c02 import compare_stages, concrete_expect, pre_state
    from program.transformer import DistTransformer, LoopGuardTransformer
    name, text, tvars = item
    out = {"name": f"locscale/{name}", "records": [], "stats": smt.new_stats(), "refusals": [], "checked": 0, "mutants": 0}
    try:
        polar_iface.set_settings()
        p = polar_iface.parse(text)
        A = read_polar(p)
        p = DistTransformer().execute(p)
        B = read_polar(p)
    except Exception as e:
        out["refusals"].append({"id": name, **polar_iface.exc_info(e)})
        return out
    src = parse_text(text)
    for (na, X), (nb, Y) in ((("source(own reader)", src), ("DistTransformer", B)), (("parsed", A), ("DistTransformer", B))):
        recs, info = compare_stages(X, Y, tvars, 4, {}, out["stats"], f"locscale/{name}:{na}->{nb}", want_mutant=True)
        out["checked"] += info["queries"]
        if info["mutant"] is False:
            out["records"].append({"kind": "harness", "tag": name, "why": "self-mutant not refuted"})
        out["mutants"] += 1 if info["mutant"] else 0
        for r in recs:
            if r["kind"] != "cex":
                out["records"].append(r)
                continue
            from vlib import momentcheck as mc
            from vlib.sem import Interp
            vals = mc.sym_values(r["model"], r["names"])
            try:
                pre = pre_state(X, Y, Interp(X)) if r["phase"] == "step" else None
                va = concrete_expect(X, r["phase"], r["mq"], vals, preenv=pre)
                vb = concrete_expect(Y, r["phase"], r["mq"], vals, preenv=pre)
            except Exception as e:  # noqa
                out["records"].append({"kind": "inconclusive", "tag": name, "why": f"replay failed: {e}"[:140]})
                continue
            if va != vb:
                out["records"].append({"kind": "violation", "key": f"locscale/{name}|{r['monomial']}", "tag": name,
                                       "what": f"DistTransformer changes E[{r['monomial']}] of '{text.splitlines()[-2].strip()}': {va} before, {vb} after at {dict((k, str(v)) for k, v in vals.items())}",
                                       "replay": {"text": text, "monomial": r["monomial"], "values": {k: str(v) for k, v in vals.items()}}})
            else:
                out["records"].append({"kind": "harness", "tag": name, "why": "model did not replay"})
    return out


def main():
    run = Run("C08", "other")
    items = []
    for fam, plist in SYMBOLIC.items():
        for ps in plist:
            items.append({"family": fam, "params": ps, "symbolic": True, "tq": 10000 if run.quick else 60000})
    for fam, plist in GRID.items():
        for ps in plist:
            items.append({"family": fam, "params": ps, "symbolic": False, "tq": 10000 if run.quick else 60000})
    if run.args.only:
        items = [i for i in items if run.args.only in i["family"]]
    results = jobs.run_jobs(job, items, timeout=400)
    ls = LOCSCALE if not run.args.only else []
    results2 = jobs.run_jobs(job_locscale, [(x,) for x in ls], timeout=300)
    checked = n = muts = 0
    for it, (st, val) in list(zip(items, results)) + list(zip(ls, results2)):
        if st != "ok":
            run.job_failed(it, st, val)
            continue
        run.add_stats(val["stats"])
        checked += val["checked"]
        n += 1 if val["checked"] else 0
        muts += val["mutants"]
        for r in val["refusals"]:
            run.refusal(r)
        for r in val["records"]:
            if r["kind"] == "violation":
                run.violation(r["key"], r["what"], r["replay"])
            elif r["kind"] == "harness":
                run.harness_error(f"{r['tag']}: {r['why']}")
            else:
                run.inconc(f"{r['tag']}: {r['why']}")
    run.sample({"symbolic": {k: v for k, v in SYMBOLIC.items()}, "grid_families": sorted(GRID), "locscale_programs": [x[0] for x in LOCSCALE]})
    run.functions = ["program.distribution.*:get_moment/cf/mgf/mgf_exists_at/get_support/is_discrete", "program.distribution.distribution:Distribution.__init__",
                     "utils.expressions:float_to_rational", "program.transformer.dist_transformer:DistTransformer._transform_normal/_uniform/_laplace/_exponential"]
    run.bounds = {"orders": f"k = 0..{KMAX}", "symbolic_parameters": "Bernoulli p; Uniform a,b; DistExp lambda (also 1/c); Categorical p_i -- all admissible values, decided by z3",
                  "grid": "Normal, Laplace, Gamma, Beta, DiscreteUniform (their get_moment needs numbers): on the grid the solver only confirms equalities of constants",
                  "transforms": "symbolic t with exp/sin/cos uninterpreted (congruence), e^{imt} on the unit circle, and t in {0, 1, 2, -1}; Taylor coefficients up to order 4",
                  "outside": "TruncNormal moment values (erf through float); Beta cf/mgf (sympy.stats integrals); Gamma transforms with non-integer shape"}
    run.assumptions = ["reference moments / transforms / supports are written from the textbook (vlib/distref.py, checks/c08.py:ref_transform)",
                       "location/scale families are defined by their standard primitive", "a sat under uninterpreted functions counts only after numeric confirmation at 30 digits"]
    run.finish(explanation="moments: one z3 query per (family, parameter shape, k) over all admissible parameter values; transforms: QF_UFNRA equalities; support: containment query; location/scale: C02's one-iteration law comparison restricted to DistTransformer",
               evaluations=checked, distinct_nontrivial=n, rule="distinct (family, parameter shape) items with at least one discharged query", self_mutants_refuted=muts)


if __name__ == "__main__":
    main()
