"""C02 -- every normalisation pass (and the whole normalisation) preserves the law over the source variables.

The real normalize_program is run once; every Transformer.execute is wrapped so that the program is read (front end b)
right after each pass.  Consecutive stages are compared by test-function expectations of ONE iteration from an
arbitrary symbolic pre-state (auxiliaries unconstrained: carrying information across the iteration boundary makes the
query sat) and of the initial block; the own reading of the source text is compared with the parsed program and with
the final program.  One query covers all pre-states, hence all iteration counts."""
import itertools
import sys
from fractions import Fraction
from vlib import polar_iface  # noqa
from vlib import smt, jobs, families
from vlib.findings import Run
from vlib.qpoly import QPoly
from vlib.lang import parse_text, read_polar, LangError, Prog
from vlib.sem import Unsupported, Interp, assumptions_for_program
from vlib.onestep import type_constraints
from vlib import momentcheck as mc

OPTION_SETS = [{}, {"transform_categoricals": True}, {"cond2arithm": True}, {"transform_categoricals": True, "cond2arithm": True},
               {"disable_type_inference": True}]


def staged_normalize(text, opts):
    """runs the real normalize_program and returns [(stage name, Prog IR)] read after every pass"""
    import program.transformer as T
    from program.transformer.transformer import Transformer
    polar_iface.set_settings(**opts)
    p = polar_iface.parse(text)
    stages = [("parsed", read_polar(p))]
    source_vars = sorted(str(v) for v in p.original_variables)
    patched = []

    def wrap(cls):
        orig = cls.execute

        def execute(self, program, _orig=orig, _cls=cls):
            r = _orig(self, program)
            try:
                stages.append((_cls.__name__, read_polar(r)))
            except NotImplementedError as e:
                stages.append((_cls.__name__, e))
            return r
        cls.execute = execute
        patched.append((cls, orig))
    seen = set()
    for name in dir(T):
        obj = getattr(T, name)
        if isinstance(obj, type) and issubclass(obj, Transformer) and obj is not Transformer and "execute" in obj.__dict__ and obj not in seen:
            seen.add(obj)
            wrap(obj)
    from program.transformer.transformer import TreeTransformer
    if "execute" in TreeTransformer.__dict__:
        # TreeTransformer.execute is inherited by Dist/If transformers
        for cls in list(seen):
            pass
    orig_tree = TreeTransformer.execute

    def tree_execute(self, program, _orig=orig_tree):
        r = _orig(self, program)
        try:
            stages.append((type(self).__name__, read_polar(r)))
        except NotImplementedError as e:
            stages.append((type(self).__name__, e))
        return r
    TreeTransformer.execute = tree_execute
    try:
        final = T.normalize_program(p)
    finally:
        for cls, orig in patched:
            cls.execute = orig
        TreeTransformer.execute = orig_tree
    return stages, source_vars, final


def test_monomials(vars_, D, cap=28):
    out = []
    for e in itertools.product(range(D + 1), repeat=len(vars_)):
        if 0 < sum(e) <= D:
            out.append(e)
    out.sort(key=lambda e: (sum(e), max(e), e))
    return out[:cap]


def loop_constants(prog: Prog):
    body_vars = set(prog.assigned_vars(prog.body))
    return [v for v in prog.assigned_vars(prog.initial) if v not in body_vars]


def pre_state(progA: Prog, progB: Prog, I: Interp):
    """shared symbolic pre-state; loop constants of either program are tied to the value their initial block gives them"""
    names = sorted(set(progA.assigned_vars()) | set(progB.assigned_vars()))
    env = {v: QPoly.var(v) for v in names}
    for prog in (progA, progB):
        lc = loop_constants(prog)
        if not lc:
            continue
        try:
            I0 = Interp(prog)
            ps = I0.run_initial()
        except (Unsupported, ZeroDivisionError):
            continue
        if ps and not any(p.pc for p in ps):
            for v in lc:
                qs = [p.env.get(v) for p in ps]
                if qs[0] is not None and all(q is not None and q == qs[0] for q in qs) and \
                        not any(qs[0].symbols_deep() & set(p.draws) for p in ps):
                    env[v] = qs[0]
    return env


def rhs_symbols(a):
    """symbols read by the right-hand side of an assignment (not by its condition)"""
    out = set()
    if a.kind == "choice":
        for v, p in a.payload:
            out |= v.symbols_deep() | p.symbols_deep()
    elif a.kind == "dist":
        for q in a.payload[1]:
            out |= q.symbols_deep()
    else:
        out.add(str(a.payload[1]))
    return out


def is_standin(a):
    return a.kind == "dist" and a.payload[0] == "Bernoulli" and len(a.payload[1]) == 1 and \
        any(sy.startswith("_prob") for sy in a.payload[1][0].symbols())


def abstraction_probs(prev: Prog, final: Prog):
    """The normalizer replaces a condition C over non-finite, iteration-independent variables by a Bernoulli(_probK)
    stand-in 'where _probK = P(C at this position)'.  The value of every _probK is computed here by the reference
    semantics: the backward slice of C's variables in the stage before the normalizer (unconditional draws and
    polynomial assignments only) is executed from the empty state and C is integrated over it.
    -> {symbol: Fraction};  raises Unsupported when the slice is not of that simple shape"""
    from vlib.lang import cond_symbols
    vals = {}
    for lst_prev, lst_final in ((prev.initial, final.initial), (prev.body, final.body)):
        if any(not hasattr(a, "kind") for a in lst_prev + lst_final):
            raise Unsupported("stage not flattened")
        seen = 0
        for i, a in enumerate(lst_final):
            if not is_standin(a):
                continue
            sym = [sy for sy in a.payload[1][0].symbols() if sy.startswith("_prob")][0]
            j = i - seen
            seen += 1
            cnd = final.abstr.get(sym)
            if cnd is None:
                raise Unsupported(f"no stored condition for {sym}")
            assigned = set(prev.assigned_vars())
            need = {v for v in cond_symbols(cnd) if v in assigned}
            chosen = []
            for b in reversed(lst_prev[:j]):
                if b.var in need:
                    if b.cond != ("true",):
                        raise Unsupported("slice of an abstracted condition contains a conditional assignment")
                    chosen.insert(0, b)
                    need.discard(b.var)
                    need |= {v for v in rhs_symbols(b) if v in assigned}
            if need:
                raise Unsupported(f"abstracted condition reads {sorted(need)} from the previous iteration")
            I = Interp(Prog({}, [], ("true",), chosen))
            paths = I.exec_list(I.start(), chosen)
            tot = QPoly()
            for p_ in paths:
                for v, p2 in I.decide(p_, I.cond(cnd, p_.env, p_)):
                    if p2.pc:
                        raise Unsupported("symbolic condition in the slice of an abstracted condition")
                    if v:
                        tot = tot + I.integrate(p2.w, p2.draws, p2.dc)
            if not tot.is_const():
                raise Unsupported(f"P({sym}) is not a constant: {tot!r}")
            vals[sym] = tot.cval()
    return vals


def abstraction_classes(prev: Prog, final: Prog):
    """-> predicate inherent(monomial variables).  For every abstracted condition C: Wd = variables that carry the randomness
    of C's variables unconditionally (C's variables, what they were computed from, what is computed from them outside the
    branch of C); G = variables assigned under C (and what is computed from those).  The stand-in for C is independent of
    Wd, so the joint law of (Wd, G) is lost BY DESIGN of the abstraction (known finding): a test function is hit by that
    loss iff it mentions both sides, or depends on an assignment OUTSIDE the branch of C that reads both sides.  An
    assignment INSIDE the branch that reads Wd is a different matter: Polar's own rules promise to refuse it."""
    from vlib.lang import cond_symbols
    assigns = [a for a in prev.initial + prev.body if hasattr(a, "kind")]
    allv = set(prev.assigned_vars())
    reads = lambda a: (rhs_symbols(a) | cond_symbols(a.cond)) & allv
    infos = []
    for c in final.abstr.values():
        C = cond_symbols(c) & allv
        guarded = lambda a, C=C: bool(cond_symbols(a.cond) & C)
        Wd = set(C)
        changed = True
        while changed:
            changed = False
            for a in assigns:
                r = rhs_symbols(a) & allv
                if a.var in Wd and not guarded(a) and not r <= Wd:
                    Wd |= r
                    changed = True
                if not guarded(a) and (r & Wd) and a.var not in Wd:
                    Wd.add(a.var)
                    changed = True
        G = {a.var for a in assigns if guarded(a)}
        changed = True
        while changed:
            changed = False
            for a in assigns:
                if a.var not in G and (reads(a) & G):
                    G.add(a.var)
                    changed = True
        mixers = {a.var for a in assigns if not guarded(a) and (reads(a) & G) and (reads(a) & (Wd - G))}
        infos.append((Wd, G, mixers))

    def inherent(mvars):
        dep = set(mvars)
        changed = True
        while changed:
            changed = False
            for a in assigns:
                if a.var in dep and not reads(a) <= dep:
                    dep |= reads(a)
                    changed = True
        for Wd, G, mixers in infos:
            if any(v in Wd and v not in G for v in mvars) and any(v in G for v in mvars):
                return True
            if mixers & dep:
                return True
        return False
    return inherent


def compare_stages(A: Prog, B: Prog, tvars, D, types, stats, tag, timeout_ms=30000, want_mutant=False, param_vals=None, all_cex=False):
    """-> list of records; one iteration from the shared arbitrary pre-state and the initial block"""
    import z3
    recs = []
    info = {"queries": 0, "mutant": None}
    both = [v for v in tvars if v in set(A.assigned_vars()) and v in set(B.assigned_vars())]
    if not both:
        return recs, info
    mons = test_monomials(both, D)
    for phase in ("init", "step"):
        Is, exps = [], []
        try:
            for prog in (A, B):
                I = Interp(prog, unset_suffix="" if phase == "step" else "0", max_paths=8000, param_vals=param_vals)
                Is.append(I)
            zshare = Is[0].z
            Is[1].z = zshare
            for I, prog in zip(Is, (A, B)):
                for c in assumptions_for_program(prog, I):
                    Is[0].assume(c)
                    Is[1].assume(c)
            if phase == "step":
                for c in type_constraints(A, Is[0], types):
                    Is[0].assume(c)
                    Is[1].assume(c)
                env = pre_state(A, B, Is[0])
                paths = [I.iteration(I.start({k: v for k, v in env.items()})) for I in Is]
            else:
                paths = [I.run_initial() for I in Is]
        except (Unsupported, ZeroDivisionError, NotImplementedError) as e:
            recs.append({"kind": "inconclusive", "tag": f"{tag}:{phase}", "why": f"oracle: {type(e).__name__} {e}"[:150]})
            continue
        base = list(Is[0].solver.assertions())
        for e in mons:
            mq = QPoly.const(1)
            for v, x in zip(both, e):
                mq = mq * QPoly.var(v) ** x
            try:
                side = []
                za = Is[0].to_z3(Is[0].expect_monomial(paths[0], mq), side)
                zb = Is[1].to_z3(Is[1].expect_monomial(paths[1], mq), side)
            except (Unsupported, ZeroDivisionError) as ex:
                recs.append({"kind": "inconclusive", "tag": f"{tag}:{phase}:{mq!r}", "why": f"{ex}"[:120]})
                continue
            cons = base + [s[2] for s in Is[0].side + Is[1].side + side]
            v, model = smt.decide(cons + [za != zb], stats, timeout_ms, tag=f"{tag}:{phase}:E[{mq!r}]", keep_sample=(phase == "step"))
            info["queries"] += 1
            if want_mutant and info["mutant"] is None and phase == "step":
                mv, _ = smt.decide(cons + [za != zb + 1], None, 20000)
                info["mutant"] = (mv == "sat")
            if v == "unknown":
                recs.append({"kind": "inconclusive", "tag": f"{tag}:{phase}:E[{mq!r}]", "why": "solver unknown"})
            elif v == "sat":
                recs.append({"kind": "cex", "phase": phase, "monomial": repr(mq), "mq": mq, "model": model, "names": sorted(zshare)})
                if not all_cex:
                    break
    return recs, info


def concrete_expect(prog: Prog, phase, mq, vals, types_env=None, preenv=None):
    from vlib.distref import PHI0
    vals = dict(vals)
    vals.setdefault(PHI0, Fraction(3989422804, 10 ** 10))   # 1/sqrt(2 pi) to ten digits (half-normal moments)
    I = Interp(prog, unset_suffix="" if phase == "step" else "0", param_vals=vals, max_paths=60000)
    if phase == "step":
        env = {k: I.val({}, q) for k, q in preenv.items()}
        paths = I.iteration(I.start(env))
    else:
        paths = I.run_initial()
    tot = Fraction(0)
    for pc, q in I.expect_monomial(paths, mq):
        if pc:
            raise Unsupported("symbolic branch in concrete replay")
        tot += q.evalq(vals)
    return tot


def job(item):
    pid, text = item["id"], item["text"]
    out = {"id": pid, "records": [], "stats": smt.new_stats(), "refusals": [], "skipped": None, "checked": 0, "stages": 0, "mutants": 0, "pairs": []}
    try:
        src = parse_text(text)
    except LangError as e:
        out["skipped"] = f"own reader: {e}"
        return out
    for opts in item["optsets"]:
        oname = ",".join(sorted(opts)) or "default"
        try:
            with polar_iface.time_limit(60):
                stages, source_vars, final = staged_normalize(text, opts)
        except polar_iface.JobTimeout:
            out["refusals"].append({"id": pid, "opts": oname, "type": "Timeout", "msg": "normalize_program", "where": ""})
            continue
        except Exception as e:
            out["refusals"].append({"id": pid, "opts": oname, **polar_iface.exc_info(e)})
            continue
        bad = [s for s in stages if not isinstance(s[1], Prog)]
        if bad:
            out["records"].append({"kind": "inconclusive", "tag": f"{pid}:{oname}", "why": f"stage not readable: {bad[0][0]} {bad[0][1]}"[:150]})
            continue
        types = dict(stages[-1][1].types)
        final_ir = stages[-1][1]
        prob_vals, classes = None, None
        if any(is_standin(a) for a in final_ir.all_assigns(final_ir.initial + final_ir.body)):
            # Bernoulli stand-ins for conditions over non-finite variables: their probabilities come from the reference
            prev = [st for st in stages if not any(is_standin(a) for a in st[1].all_assigns(st[1].initial + st[1].body))][-1][1]
            try:
                prob_vals = abstraction_probs(prev, final_ir)
                classes = abstraction_classes(prev, final_ir)
            except (Unsupported, ZeroDivisionError) as e:
                out["records"].append({"kind": "inconclusive", "tag": f"{pid}:{oname}", "why": f"Bernoulli abstraction outside the oracle: {e}"[:160]})
                continue
            out["abstractions"] = out.get("abstractions", 0) + len(prob_vals)
        chain = [("source(own reader)", src)] + stages
        pairs = []
        for (na, A), (nb, B) in zip(chain, chain[1:]):
            if repr(A) != repr(B):
                pairs.append((na, A, nb, B))
        pairs.append(("source(own reader)", src, "normalized", stages[-1][1]))
        first = True
        for na, A, nb, B in pairs:
            tag = f"{pid}:{oname}:{na}->{nb}"
            recs, info = compare_stages(A, B, source_vars, item["D"], types, out["stats"], tag, want_mutant=first, param_vals=prob_vals, all_cex=bool(prob_vals))
            out["checked"] += info["queries"]
            out["stages"] += 1
            if first and info["mutant"] is not None:
                out["mutants"] += 1
                if not info["mutant"]:
                    out["records"].append({"kind": "harness", "tag": tag, "why": "self-mutant (expectation + 1) not refuted"})
                first = False
            for r in recs:
                if r["kind"] != "cex":
                    out["records"].append(r)
                    continue
                vals = mc.sym_values(r["model"], r["names"])
                vals.pop("@phi0", None)
                if prob_vals:
                    vals.update(prob_vals)
                try:
                    Ih = Interp(A)
                    preenv = pre_state(A, B, Ih) if r["phase"] == "step" else None
                    va = concrete_expect(A, r["phase"], r["mq"], vals, preenv=preenv)
                    vb = concrete_expect(B, r["phase"], r["mq"], vals, preenv=preenv)
                except Exception as e:  # noqa
                    out["records"].append({"kind": "inconclusive", "tag": tag, "why": f"replay failed: {type(e).__name__} {e}"[:160]})
                    continue
                if va == vb:
                    out["records"].append({"kind": "harness", "tag": tag, "why": f"model did not replay ({r['monomial']})"})
                    continue
                key = f"{pid}|{oname}|{nb}"
                if classes:
                    if classes(set(r["mq"].symbols())):
                        # the stand-in is independent of the variables its condition was about: their joint law is lost
                        key = "abstraction|joint moment of a variable of the abstracted condition and a variable assigned under it"
                what = (f"pass {nb} (after {na}, options {oname}) changes E[{r['monomial']}] of "
                        f"{'one iteration from pre-state' if r['phase'] == 'step' else 'the initial block at'} "
                        f"{dict((k, str(v)) for k, v in vals.items() if v != 0 or k in source_vars)}: {va} before, {vb} after")
                if prob_vals:
                    what += f" (stand-in probabilities {dict((k, str(v)) for k, v in prob_vals.items())})"
                out["records"].append({"kind": "violation", "key": key, "tag": tag, "what": what,
                                       "replay": {"text": text, "opts": opts, "pass": nb, "after": na, "phase": r["phase"], "monomial": r["monomial"],
                                                  "values": {k: str(v) for k, v in vals.items()}, "before": str(va), "after_value": str(vb),
                                                  "program_before": repr(A), "program_after": repr(B)}})
            out["pairs"].append(f"{na}->{nb}")
    return out


def abstraction_family(seed, count):
    """random programs around the Bernoulli abstraction: thresholds on continuous draws (and on affine aliases of them),
    assignments under those conditions that read counters, other draws, aliases or the tested draw itself, else
    branches, the same condition twice, a draw made again between two tests.  Polar may refuse any of them; what it accepts
    must keep the joint law (the known loss of the joint law with the tested variables itself is keyed separately)."""
    import random
    out = []
    for i in range(count):
        r = random.Random(f"c02-abs-{seed}-{i}")
        draws = {"u": r.choice(["Uniform(0, 1)", "Uniform(0, 2)", "Uniform(-1, 1)", "Normal(0, 1)", "Laplace(0, 1)", "Normal(1, 4)"])}
        if r.random() < 0.5:
            draws["v"] = r.choice(["Uniform(0, 1)", "Uniform(1, 3)", "Normal(0, 1)"])

        def thr(d):
            if d.startswith("Uniform"):
                return r.choice(["1/2", "1/3", "3/4", "1", "0", "3/2"])
            return d[d.index("(") + 1:d.index(",")]      # the location
        body = [f"    {k} = {d}" for k, d in draws.items()]
        alias = None
        if r.random() < 0.4:
            alias = "w"
            body.append(f"    w = {r.choice(['2*u', 'u + 1', '1 - u', 'u'])}")
        if r.random() < 0.4:
            body.append("    f = Bernoulli(1/2)")
            flag = True
        else:
            flag = False

        def cond():
            k = r.choice(list(draws))
            c = f"{k} {r.choice(['>', '<', '>=', '<='])} {thr(draws[k])}"
            if alias and r.random() < 0.3:
                c = f"w {r.choice(['>', '<'])} {r.choice(['1', '1/2', '0'])}"
            if flag and r.random() < 0.3:
                c += " && f == 1"
            return c

        def upd():
            return r.choice(["x = x + 1", "y = y + 2", "y = x", "x = x + y", "y = u", "x = 2*x + 1", "y = y + u" if r.random() < 0.3 else "y = y - 1",
                             "x = w" if alias else "x = x - 1"])
        c1 = cond()
        body.append(f"    if {c1}:")
        body.append("        " + upd())
        if r.random() < 0.3:
            body.append("    else:")
            body.append("        " + upd())
        body.append("    end")
        k2 = r.random()
        if k2 < 0.3:
            body.append(f"    if {c1}:")
            body.append("        " + upd())
            body.append("    end")
        elif k2 < 0.6:
            if r.random() < 0.5:
                body.append(f"    u = {draws['u']}")
            body.append(f"    if {cond()}:")
            body.append("        " + upd())
            body.append("    end")
        init = ["x = 0", "y = 1"] + (["f = 0"] if flag else [])
        text = "\n".join(init) + "\nwhile true:\n" + "\n".join(body) + "\nend\n"
        out.append((f"absgen/s{seed}/{i}", text))
    return out


def build_items(run):
    items = []
    optsets = OPTION_SETS if not run.quick else OPTION_SETS[:3]
    D = 2 if run.quick else 3
    for pid, text, goals in families.corpus():
        items.append({"id": pid, "text": text, "optsets": OPTION_SETS, "D": 3})
    for pid, text, goals in families.corpus("corpus_abs"):
        items.append({"id": "abs/" + pid, "text": text, "optsets": OPTION_SETS[:2], "D": 3})
    for pid, text in abstraction_family(run.seed, 40 if run.quick else 400):
        items.append({"id": pid, "text": text, "optsets": OPTION_SETS[:1], "D": 2})
    for pid, text, goals in families.repo_benchmarks(run.quick, run.seed, limit_quick=12):
        if "defective" in pid or "development" in pid:
            continue
        items.append({"id": pid, "text": text, "optsets": optsets[:2], "D": D})
    for pid, text, goals in families.generated(run.quick, run.seed, count=(60 if run.quick else 200)):   # 200: the thorough tier is sized to about 20 minutes
        items.append({"id": pid, "text": text, "optsets": optsets, "D": D})
    for pid, text, goals in families.symbolic_templates(run.quick, run.seed):
        items.append({"id": pid, "text": text, "optsets": optsets, "D": D})
    if run.args.only:
        items = [i for i in items if run.args.only in i["id"]]
    return items


def main():
    run = Run("C02", "translation_validation")
    items = build_items(run)
    results = jobs.run_jobs(job, items, timeout=100 if run.quick else 300)
    run.notes.append({"slowest_jobs": jobs.slowest(items, lambda it: it["id"])})
    programs = checked = stages = muts = 0
    passes = {}
    for it, (st, val) in zip(items, results):
        if st != "ok":
            run.job_failed(it['id'], st, val)
            continue
        run.add_stats(val["stats"])
        for r in val["refusals"]:
            run.refusal(r)
        if val["skipped"]:
            run.inconc(f"{it['id']}: outside the oracle ({val['skipped']})")
            continue
        if val["checked"]:
            programs += 1
        checked += val["checked"]
        stages += val["stages"]
        muts += val["mutants"]
        for p in val["pairs"]:
            passes[p.split("->")[1]] = passes.get(p.split("->")[1], 0) + 1
        for r in val["records"]:
            if r["kind"] == "violation":
                run.violation(r["key"], r["what"], r["replay"])
            elif r["kind"] == "harness":
                run.harness_error(f"{r['tag']}: {r['why']}")
            else:
                run.inconc(f"{r['tag']}: {r['why']}")
        if val["checked"] and len(run.samples) < 6:
            run.sample({"program": it["id"], "text": it["text"][:300], "stage_pairs": val["pairs"][:12]})
    run.functions = ["program.transformer:normalize_program (every Transformer.execute observed)", "LoopGuardTransformer", "DistTransformer", "IfTransformer",
                     "MultiAssignTransformer", "ConditionsReducer", "ConstantsTransformer", "UpdateInfoTransformer", "TypeInferer", "ConditionsNormalizer",
                     "ConditionsToArithm", "inputparser.structure_transformer:StructureTransformer (parsed program vs own reading of the text)"]
    run.bounds = {"family": "corpus + repo benchmarks within the oracle + generated family + symbolic templates", "test_functions": "monomials over the source variables up to total degree 2 (quick) / 3 (thorough), <= 28 per pair",
                  "pre_state": "arbitrary (typed variables in their Polar type, auxiliaries unconstrained, loop constants tied to their initial value) => all iteration counts",
                  "options": [",".join(sorted(o)) or "default" for o in OPTION_SETS], "outside": "trivial_guard (changes meaning by design); functional assignments; TruncNormal; Bernoulli abstraction of conditions other than thresholds on one Uniform draw (constant bounds) or on a Normal/Laplace draw at its location"}
    run.assumptions = ["finite types Polar holds are sound (C05)", "equality of laws is observed through moments up to the stated degree (exact for finitely-valued variables with at most degree+1 values)",
                       "probabilities in [0,1], admissible distribution parameters"]
    run.coverage["pass_pairs_compared"] = passes
    run.finish(programs=programs, disagreements_checked=checked, stage_pairs=stages, self_mutants_refuted=muts,
               explanation="per changed pass and per test function one z3 query: E_before[f | pre] != E_after[f | pre] over all pre-states and parameters")


if __name__ == "__main__":
    main()
