"""C02 -- every normalisation pass (and the whole normalisation) preserves the law over the source variables.

The real normalize_program is run once; every Transformer.execute is wrapped so that the program is read (front end b)
right after each pass.  Consecutive stages are compared by test-function expectations of ONE iteration from an
arbitrary symbolic pre-state (auxiliaries unconstrained: carrying information across the iteration boundary makes the
query sat) and of the initial block; the own reading of the source text is compared with the parsed program and with
the final program.  One query covers all pre-states, hence all iteration counts."""
import itertools
import sys
from fractions import Fraction
from vlib import polar_iface  # noqa
from vlib import smt, jobs, families
from vlib.findings import Run
from vlib.qpoly import QPoly
from vlib.lang import parse_text, read_polar, LangError, Prog
from vlib.sem import Unsupported, Interp, assumptions_for_program
from vlib.onestep import type_constraints
from vlib import momentcheck as mc

OPTION_SETS = [{}, {"transform_categoricals": True}, {"cond2arithm": True}, {"transform_categoricals": True, "cond2arithm": True},
               {"disable_type_inference": True}]


def staged_normalize(text, opts):
    """runs the real normalize_program and returns [(stage name, Prog IR)] read after every pass"""
    import program.transformer as T
    from program.transformer.transformer import Transformer
    polar_iface.set_settings(**opts)
    p = polar_iface.parse(text)
    stages = [("parsed", read_polar(p))]
    source_vars = sorted(str(v) for v in p.original_variables)
    patched = []

    def wrap(cls):
        orig = cls.execute

        def execute(self, program, _orig=orig, _cls=cls):
            r = _orig(self, program)
            try:
                stages.append((_cls.__name__, read_polar(r)))
            except NotImplementedError as e:
                stages.append((_cls.__name__, e))
            return r
        cls.execute = execute
        patched.append((cls, orig))
    seen = set()
    for name in dir(T):
        obj = getattr(T, name)
        if isinstance(obj, type) and issubclass(obj, Transformer) and obj is not Transformer and "execute" in obj.__dict__ and obj not in seen:
            seen.add(obj)
            wrap(obj)
    from program.transformer.transformer import TreeTransformer
    if "execute" in TreeTransformer.__dict__:
        # TreeTransformer.execute is inherited by Dist/If transformers
        for cls in list(seen):
            pass
    orig_tree = TreeTransformer.execute

    def tree_execute(self, program, _orig=orig_tree):
        r = _orig(self, program)
        try:
            stages.append((type(self).__name__, read_polar(r)))
        except NotImplementedError as e:
            stages.append((type(self).__name__, e))
        return r
    TreeTransformer.execute = tree_execute
    try:
        final = T.normalize_program(p)
    finally:
        for cls, orig in patched:
            cls.execute = orig
        TreeTransformer.execute = orig_tree
    return stages, source_vars, final


def test_monomials(vars_, D, cap=28):
    out = []
    for e in itertools.product(range(D + 1), repeat=len(vars_)):
        if 0 < sum(e) <= D:
            out.append(e)
    out.sort(key=lambda e: (sum(e), max(e), e))
    return out[:cap]


def loop_constants(prog: Prog):
    body_vars = set(prog.assigned_vars(prog.body))
    return [v for v in prog.assigned_vars(prog.initial) if v not in body_vars]


def pre_state(progA: Prog, progB: Prog, I: Interp):
    """shared symbolic pre-state; loop constants of either program are tied to the value their initial block gives them"""
    names = sorted(set(progA.assigned_vars()) | set(progB.assigned_vars()))
    env = {v: QPoly.var(v) for v in names}
    for prog in (progA, progB):
        lc = loop_constants(prog)
        if not lc:
            continue
        try:
            I0 = Interp(prog)
            ps = I0.run_initial()
        except (Unsupported, ZeroDivisionError):
            continue
        if ps and not any(p.pc for p in ps):
            for v in lc:
                qs = [p.env.get(v) for p in ps]
                if qs[0] is not None and all(q is not None and q == qs[0] for q in qs) and \
                        not any(qs[0].symbols_deep() & set(p.draws) for p in ps):
                    env[v] = qs[0]
    return env


def compare_stages(A: Prog, B: Prog, tvars, D, types, stats, tag, timeout_ms=30000, want_mutant=False):
    """-> list of records; one iteration from the shared arbitrary pre-state and the initial block"""
    import z3
    recs = []
    info = {"queries": 0, "mutant": None}
    both = [v for v in tvars if v in set(A.assigned_vars()) and v in set(B.assigned_vars())]
    if not both:
        return recs, info
    mons = test_monomials(both, D)
    for phase in ("init", "step"):
        Is, exps = [], []
        try:
            for prog in (A, B):
                I = Interp(prog, unset_suffix="" if phase == "step" else "0", max_paths=8000)
                Is.append(I)
            zshare = Is[0].z
            Is[1].z = zshare
            for I, prog in zip(Is, (A, B)):
                for c in assumptions_for_program(prog, I):
                    Is[0].assume(c)
                    Is[1].assume(c)
            if phase == "step":
                for c in type_constraints(A, Is[0], types):
                    Is[0].assume(c)
                    Is[1].assume(c)
                env = pre_state(A, B, Is[0])
                paths = [I.iteration(I.start({k: v for k, v in env.items()})) for I in Is]
            else:
                paths = [I.run_initial() for I in Is]
        except (Unsupported, ZeroDivisionError, NotImplementedError) as e:
            recs.append({"kind": "inconclusive", "tag": f"{tag}:{phase}", "why": f"oracle: {type(e).__name__} {e}"[:150]})
            continue
        base = list(Is[0].solver.assertions())
        for e in mons:
            mq = QPoly.const(1)
            for v, x in zip(both, e):
                mq = mq * QPoly.var(v) ** x
            try:
                side = []
                za = Is[0].to_z3(Is[0].expect_monomial(paths[0], mq), side)
                zb = Is[1].to_z3(Is[1].expect_monomial(paths[1], mq), side)
            except (Unsupported, ZeroDivisionError) as ex:
                recs.append({"kind": "inconclusive", "tag": f"{tag}:{phase}:{mq!r}", "why": f"{ex}"[:120]})
                continue
            cons = base + [s[2] for s in Is[0].side + Is[1].side + side]
            v, model = smt.decide(cons + [za != zb], stats, timeout_ms, tag=f"{tag}:{phase}:E[{mq!r}]", keep_sample=(phase == "step"))
            info["queries"] += 1
            if want_mutant and info["mutant"] is None and phase == "step":
                mv, _ = smt.decide(cons + [za != zb + 1], None, 20000)
                info["mutant"] = (mv == "sat")
            if v == "unknown":
                recs.append({"kind": "inconclusive", "tag": f"{tag}:{phase}:E[{mq!r}]", "why": "solver unknown"})
            elif v == "sat":
                recs.append({"kind": "cex", "phase": phase, "monomial": repr(mq), "mq": mq, "model": model, "names": sorted(zshare)})
                break
    return recs, info


def concrete_expect(prog: Prog, phase, mq, vals, types_env=None, preenv=None):
    I = Interp(prog, unset_suffix="" if phase == "step" else "0", param_vals=vals, max_paths=60000)
    if phase == "step":
        env = {k: I.val({}, q) for k, q in preenv.items()}
        paths = I.iteration(I.start(env))
    else:
        paths = I.run_initial()
    tot = Fraction(0)
    for pc, q in I.expect_monomial(paths, mq):
        if pc:
            raise Unsupported("symbolic branch in concrete replay")
        tot += q.evalq(vals)
    return tot


def job(item):
    pid, text = item["id"], item["text"]
    out = {"id": pid, "records": [], "stats": smt.new_stats(), "refusals": [], "skipped": None, "checked": 0, "stages": 0, "mutants": 0, "pairs": []}
    try:
        src = parse_text(text)
    except LangError as e:
        out["skipped"] = f"own reader: {e}"
        return out
    for opts in item["optsets"]:
        oname = ",".join(sorted(opts)) or "default"
        try:
            with polar_iface.time_limit(60):
                stages, source_vars, final = staged_normalize(text, opts)
        except polar_iface.JobTimeout:
            out["refusals"].append({"id": pid, "opts": oname, "type": "Timeout", "msg": "normalize_program", "where": ""})
            continue
        except Exception as e:
            out["refusals"].append({"id": pid, "opts": oname, **polar_iface.exc_info(e)})
            continue
        bad = [s for s in stages if not isinstance(s[1], Prog)]
        if bad:
            out["records"].append({"kind": "inconclusive", "tag": f"{pid}:{oname}", "why": f"stage not readable: {bad[0][0]} {bad[0][1]}"[:150]})
            continue
        types = dict(stages[-1][1].types)
        if any(a.kind == "dist" and a.payload[0] == "Bernoulli" and any("_prob" in s for q in a.payload[1] for s in q.symbols())
               for a in stages[-1][1].all_assigns(stages[-1][1].body)):
            out["records"].append({"kind": "inconclusive", "tag": f"{pid}:{oname}", "why": "Bernoulli abstraction of a non-finite condition (outside this check)"})
            continue
        chain = [("source(own reader)", src)] + stages
        pairs = []
        for (na, A), (nb, B) in zip(chain, chain[1:]):
            if repr(A) != repr(B):
                pairs.append((na, A, nb, B))
        pairs.append(("source(own reader)", src, "normalized", stages[-1][1]))
        first = True
        for na, A, nb, B in pairs:
            tag = f"{pid}:{oname}:{na}->{nb}"
            recs, info = compare_stages(A, B, source_vars, item["D"], types, out["stats"], tag, want_mutant=first)
            out["checked"] += info["queries"]
            out["stages"] += 1
            if first and info["mutant"] is not None:
                out["mutants"] += 1
                if not info["mutant"]:
                    out["records"].append({"kind": "harness", "tag": tag, "why": "self-mutant (expectation + 1) not refuted"})
                first = False
            for r in recs:
                if r["kind"] != "cex":
                    out["records"].append(r)
                    continue
                vals = mc.sym_values(r["model"], r["names"])
                try:
                    Ih = Interp(A)
                    preenv = pre_state(A, B, Ih) if r["phase"] == "step" else None
                    va = concrete_expect(A, r["phase"], r["mq"], vals, preenv=preenv)
                    vb = concrete_expect(B, r["phase"], r["mq"], vals, preenv=preenv)
                except Exception as e:  # noqa
                    out["records"].append({"kind": "inconclusive", "tag": tag, "why": f"replay failed: {type(e).__name__} {e}"[:160]})
                    continue
                if va == vb:
                    out["records"].append({"kind": "harness", "tag": tag, "why": f"model did not replay ({r['monomial']})"})
                    continue
                what = (f"pass {nb} (after {na}, options {oname}) changes E[{r['monomial']}] of "
                        f"{'one iteration from pre-state' if r['phase'] == 'step' else 'the initial block at'} "
                        f"{dict((k, str(v)) for k, v in vals.items() if v != 0 or k in source_vars)}: {va} before, {vb} after")
                out["records"].append({"kind": "violation", "key": f"{pid}|{oname}|{nb}", "tag": tag, "what": what,
                                       "replay": {"text": text, "opts": opts, "pass": nb, "after": na, "phase": r["phase"], "monomial": r["monomial"],
                                                  "values": {k: str(v) for k, v in vals.items()}, "before": str(va), "after_value": str(vb),
                                                  "program_before": repr(A), "program_after": repr(B)}})
            out["pairs"].append(f"{na}->{nb}")
    return out


def build_items(run):
    items = []
    optsets = OPTION_SETS if not run.quick else OPTION_SETS[:3]
    D = 2 if run.quick else 3
    for pid, text, goals in families.corpus():
        items.append({"id": pid, "text": text, "optsets": OPTION_SETS, "D": 3})
    for pid, text, goals in families.repo_benchmarks(run.quick, run.seed, limit_quick=12):
        if "defective" in pid or "development" in pid:
            continue
        items.append({"id": pid, "text": text, "optsets": optsets[:2], "D": D})
    for pid, text, goals in families.generated(run.quick, run.seed, count=(60 if run.quick else 600)):
        items.append({"id": pid, "text": text, "optsets": optsets, "D": D})
    for pid, text, goals in families.symbolic_templates(run.quick, run.seed):
        items.append({"id": pid, "text": text, "optsets": optsets, "D": D})
    if run.args.only:
        items = [i for i in items if run.args.only in i["id"]]
    return items


def main():
    run = Run("C02", "translation_validation")
    items = build_items(run)
    results = jobs.run_jobs(job, items, timeout=100 if run.quick else 900)
    run.notes.append({"slowest_jobs": jobs.slowest(items, lambda it: it["id"])})
    programs = checked = stages = muts = 0
    passes = {}
    for it, (st, val) in zip(items, results):
        if st != "ok":
            run.job_failed(it['id'], st, val)
            continue
        run.add_stats(val["stats"])
        for r in val["refusals"]:
            run.refusal(r)
        if val["skipped"]:
            run.inconc(f"{it['id']}: outside the oracle ({val['skipped']})")
            continue
        if val["checked"]:
            programs += 1
        checked += val["checked"]
        stages += val["stages"]
        muts += val["mutants"]
        for p in val["pairs"]:
            passes[p.split("->")[1]] = passes.get(p.split("->")[1], 0) + 1
        for r in val["records"]:
            if r["kind"] == "violation":
                run.violation(r["key"], r["what"], r["replay"])
            elif r["kind"] == "harness":
                run.harness_error(f"{r['tag']}: {r['why']}")
            else:
                run.inconc(f"{r['tag']}: {r['why']}")
        if val["checked"] and len(run.samples) < 6:
            run.sample({"program": it["id"], "text": it["text"][:300], "stage_pairs": val["pairs"][:12]})
    run.functions = ["program.transformer:normalize_program (every Transformer.execute observed)", "LoopGuardTransformer", "DistTransformer", "IfTransformer",
                     "MultiAssignTransformer", "ConditionsReducer", "ConstantsTransformer", "UpdateInfoTransformer", "TypeInferer", "ConditionsNormalizer",
                     "ConditionsToArithm", "inputparser.structure_transformer:StructureTransformer (parsed program vs own reading of the text)"]
    run.bounds = {"family": "corpus + repo benchmarks within the oracle + generated family + symbolic templates", "test_functions": "monomials over the source variables up to total degree 2 (quick) / 3 (thorough), <= 28 per pair",
                  "pre_state": "arbitrary (typed variables in their Polar type, auxiliaries unconstrained, loop constants tied to their initial value) => all iteration counts",
                  "options": [",".join(sorted(o)) or "default" for o in OPTION_SETS], "outside": "trivial_guard (changes meaning by design); Bernoulli abstraction of non-finite conditions; functional assignments; TruncNormal"}
    run.assumptions = ["finite types Polar holds are sound (C05)", "equality of laws is observed through moments up to the stated degree (exact for finitely-valued variables with at most degree+1 values)",
                       "probabilities in [0,1], admissible distribution parameters"]
    run.coverage["pass_pairs_compared"] = passes
    run.finish(programs=programs, disagreements_checked=checked, stage_pairs=stages, self_mutants_refuted=muts,
               explanation="per changed pass and per test function one z3 query: E_before[f | pre] != E_after[f | pre] over all pre-states and parameters")


if __name__ == "__main__":
    main()
