"""C10 -- reported sensitivities are the parameter derivatives of the exact moments (both methods; n <= N; all values)."""
import re
import sys
from fractions import Fraction
from vlib import polar_iface  # noqa
from vlib import smt, jobs, families
from vlib.findings import Run
from vlib.qpoly import QPoly
from vlib.lang import parse_text, LangError, arith
from vlib.sem import Unsupported, kstep
from vlib.s2z import Tr, at_n, Untranslatable
from vlib import momentcheck as mc


def job(item):
    import sympy as sp
    import z3
    from symengine import sympify as se
    from recurrences import DiffRecBuilder, RecBuilder
    from recurrences.solver import RecurrenceSolver
    from sensitivity_analysis import SensivitiyAnalyzer
    pid, text, goals, N = item["id"], item["text"], item["goals"], item["N"]
    out = {"id": pid, "records": [], "stats": smt.new_stats(), "refusals": [], "skipped": None, "checked": 0, "mutants": 0, "pairs": 0}
    try:
        prog = parse_text(text)
    except LangError as e:
        out["skipped"] = f"own reader: {e}"
        return out
    try:
        with polar_iface.time_limit(60):
            program = polar_iface.normalized(text)
    except Exception as e:
        out["refusals"].append({"id": pid, "stage": "normalize", **polar_iface.exc_info(e)})
        return out
    params = sorted(str(s) for s in program.symbols if not str(s).startswith("_"))[: item.get("max_params", 2)]
    if not params:
        out["skipped"] = "no symbolic parameter"
        return out
    # reference sequences and their derivatives
    try:
        gq = {g: arith(g) for g in goals}
        seq = {g: [] for g in goals}
        I = None
        for k, I, paths in kstep(prog, N):
            for g in goals:
                seq[g].append(I.expect_monomial(paths, gq[g]))
    except (Unsupported, ZeroDivisionError) as e:
        out["skipped"] = f"oracle: {e}"
        return out
    src_vars = [v for v in sorted(prog.assigned_vars()) if not v.startswith("_")]
    for p in params:
        ps = se(p)
        # Q4: get_dependent_variables is a superset of the variables whose expectation depends on p
        try:
            dep, _ = SensivitiyAnalyzer.get_dependent_variables(program, ps)
            dep = {str(v) for v in dep}
            for v in src_vars:
                if v in dep or v not in {str(x) for x in program.variables}:
                    continue
                for k, I2, paths in kstep(prog, min(N, 3)):
                    groups = I2.expect_monomial(paths, QPoly.var(v))
                    if any(pc for pc, q in groups):
                        break
                    d = sum((q for pc, q in groups), QPoly()).diff(p)
                    if d.is_zero():
                        continue
                    side = []
                    dz = d.to_z3(I2.zv, side)
                    vv, model = smt.decide(list(I2.solver.assertions()) + [s[2] for s in side] + [dz != 0], out["stats"], 20000, tag=f"{pid}:dep({v},{p}):n={k}", keep_sample=False)
                    out["checked"] += 1
                    if vv == "sat":
                        out["records"].append({"kind": "violation", "key": f"{pid}|dependent|{v}|{p}", "tag": pid,
                                               "what": f"get_dependent_variables({p}) = {sorted(dep)} omits {v}, although dE({v})/d{p} at n={k} is {d!r} (non-zero at {model})", "replay": {"text": text, "param": p, "variable": v}})
                        break
        except Exception as e:  # noqa
            out["records"].append({"kind": "inconclusive", "tag": f"{pid}:dependent({p})", "why": f"{type(e).__name__}: {e}"[:140]})
        for g in goals:
            results = {}
            try:
                with polar_iface.time_limit(item.get("goal_timeout", 60)):
                    drb = DiffRecBuilder(program, ps)
                    rec = drb.get_recurrences(se(g))
                    s = RecurrenceSolver(rec)
                    results["recurrences"] = sp.sympify(s.get(sp.sympify(drb.delta * se(g))))
            except polar_iface.JobTimeout:
                out["refusals"].append({"id": pid, "goal": g, "param": p, "method": "recurrences", "type": "Timeout", "msg": "", "where": ""})
            except Exception as e:
                out["refusals"].append({"id": pid, "goal": g, "param": p, "method": "recurrences", **polar_iface.exc_info(e)})
            try:
                with polar_iface.time_limit(item.get("goal_timeout", 60)):
                    rb = RecBuilder(program)
                    rec = rb.get_recurrences(se(g))
                    s = RecurrenceSolver(rec)
                    cf = sp.sympify(s.get(se(g)))
                    results["diff"] = cf.diff(sp.Symbol(p)).simplify()
            except polar_iface.JobTimeout:
                out["refusals"].append({"id": pid, "goal": g, "param": p, "method": "diff", "type": "Timeout", "msg": "", "where": ""})
            except Exception as e:
                out["refusals"].append({"id": pid, "goal": g, "param": p, "method": "diff", **polar_iface.exc_info(e)})
            if not results:
                continue
            out["pairs"] += 1
            first = True
            for method, sens in results.items():
                for k in range(N + 1):
                    tag = f"{pid}:d E({g})/d {p}:{method}:n={k}"
                    groups = seq[g][k]
                    if any(pc for pc, q in groups):
                        # path conditions may depend on the parameter: differentiate only when they do not mention it
                        from z3 import z3util
                        if any(p in {str(x) for x in z3util.get_vars(c)} for pc, q in groups for c in pc):
                            out["records"].append({"kind": "inconclusive", "tag": tag, "why": "path condition depends on the parameter"})
                            continue
                    dgroups = [(pc, q.diff(p)) for pc, q in groups]
                    try:
                        ek = at_n(sens, k)
                        if ek.has(sp.Derivative) or ek.has(sp.Subs):
                            ek = ek.doit()
                        v, model, _ = mc.compare(ek, I, dgroups, out["stats"], 60000, tag, xcheck=False)
                    except (Untranslatable, NotImplementedError, Exception) as e:  # noqa
                        out["records"].append({"kind": "inconclusive", "tag": tag, "why": f"translation {type(e).__name__}: {e}"[:140]})
                        continue
                    out["checked"] += 1
                    if first and k >= 1:
                        first = False
                        mv, _, _ = mc.compare(ek + 1, I, dgroups, None, 20000)
                        out["mutants"] += 1
                        if mv != "sat":
                            out["records"].append({"kind": "harness", "tag": tag, "why": "self-mutant not refuted"})
                    if v == "sat":
                        vals = mc.sym_values(model, set(I.z) | {s_.name for s_ in ek.free_symbols})
                        try:
                            pv = mc.eval_sympy_exact(ek, vals)
                            ov = sum((q.evalq(vals) for pc, q in mc_concrete_groups(prog, gq[g], k, vals, p)), Fraction(0))
                        except Exception as e:  # noqa
                            out["records"].append({"kind": "inconclusive", "tag": tag, "why": f"replay failed {type(e).__name__}: {e}"[:140]})
                            continue
                        if mc.values_differ(pv, ov):
                            out["records"].append({"kind": "violation", "key": f"{pid}|dE({g})/d{p}|{method}", "tag": tag,
                                                   "what": f"sensitivity of E({g}) w.r.t. {p} by method '{method}' at n={k}: Polar {pv}, derivative of the exact moment {ov} at {dict((a, str(b)) for a, b in vals.items())}; reported {str(sens)[:140]}",
                                                   "replay": {"text": text, "goal": g, "param": p, "method": method, "n": k, "values": {a: str(b) for a, b in vals.items()}}})
                            break
                        out["records"].append({"kind": "harness", "tag": tag, "why": "model did not replay"})
                    elif v != "unsat":
                        out["records"].append({"kind": "inconclusive", "tag": tag, "why": "solver unknown"})
    return out


def mc_concrete_groups(prog, gq, k, vals, p):
    """derivative w.r.t. p of the exact k-step expectation, evaluated at vals: the parameter p stays symbolic while all other symbols are concrete"""
    other = {a: b for a, b in vals.items() if a != p}
    last = None
    for kk, I, paths in kstep(prog, k, param_vals=other, max_paths=100000):
        last = (I, paths)
    I, paths = last
    out = []
    for pc, q in I.expect_monomial(paths, gq):
        if pc:
            raise Unsupported("path condition depends on the parameter in the concrete replay")
        out.append((pc, q.diff(p)))
    return out


def main():
    run = Run("C10", "translation_validation")
    N = 3 if run.quick else 5
    items = []
    cands = families.corpus("corpus_sym") + families.corpus() + families.corpus("corpus_guard") + families.repo_benchmarks(True, run.seed, limit_quick=0) + \
        families.generated(run.quick, run.seed, count=(40 if run.quick else 500))
    for pid, text, goals in cands:
        goals = [g for g in goals if g != "@vars"][:(2 if run.quick else 3)]
        if goals:
            items.append({"id": pid, "text": text, "goals": goals, "N": N, "goal_timeout": 15 if run.quick else 90, "max_params": 1 if (run.quick and pid.startswith("gen/")) else 2})
    if run.args.only:
        items = [i for i in items if run.args.only in i["id"]]
    results = jobs.run_jobs(job, items, timeout=150 if run.quick else 1500)
    run.notes.append({"slowest_jobs": jobs.slowest(items, lambda it: it["id"])})
    programs = checked = muts = pairs = 0
    for it, (st, val) in zip(items, results):
        if st != "ok":
            run.job_failed(it['id'], st, val)
            continue
        run.add_stats(val["stats"])
        for r in val["refusals"]:
            run.refusal(r)
        if val["skipped"]:
            if "no symbolic parameter" not in val["skipped"]:
                run.inconc(f"{it['id']}: outside the oracle ({val['skipped']})")
            continue
        programs += 1 if val["checked"] else 0
        checked += val["checked"]
        muts += val["mutants"]
        pairs += val["pairs"]
        for r in val["records"]:
            if r["kind"] == "violation":
                run.violation(r["key"], r["what"], r["replay"])
            elif r["kind"] == "harness":
                run.harness_error(f"{r['tag']}: {r['why']}")
            else:
                run.inconc(f"{r['tag']}: {r['why']}")
        if val["checked"] and len(run.samples) < 6:
            run.sample({"program": it["id"], "goals": it["goals"], "text": it["text"][:300]})
    run.functions = ["recurrences.diff_rec_builder:DiffRecBuilder.get_recurrences/get_recurrence/get_initial_value", "sensitivity_analysis.sensitivity_analyzer:SensivitiyAnalyzer.get_dependent_variables",
                     "cli.actions.sensitivity_action:SensitivityAction._diff_closed_form (closed form .diff(param).simplify())", "recurrences.solver:RecurrenceSolver"]
    run.bounds = {"n_max": N, "family": "programs with symbolic parameters from the corpora, repo test benchmarks and the generated family; <= 2 parameters, <= 3 goals each",
                  "outside": "programs whose branch conditions depend on the parameter; n > N"}
    run.assumptions = ["probabilities in [0,1], admissible distribution parameters, denominators non-zero", "the oracle derivative is taken symbolically in QPoly (chain rule through inverse / square-root atoms)"]
    run.finish(programs=programs, disagreements_checked=checked, goal_parameter_pairs=pairs, self_mutants_refuted=muts,
               explanation="per (program, parameter, goal, method, n <= N) one z3 query: reported sensitivity at n != d/dp of the k-step reference expectation, over all parameter values")


if __name__ == "__main__":
    main()
