"""The generated program family (DESIGN 2.6): a seeded, bounded walk over the loop-language grammar that stays
inside Polar's documented class (conditions over finitely-valued variables, constant probabilities and
distribution parameters up to location/scale, non-linear dependencies acyclic, variables initialised).
Every program is plain text; the oracle reads the text with its own reader (vlib/lang.py).
Bounds: <= 3 finite variables, <= 3 numeric variables, <= 7 top-level statements, if-nesting <= 2, elif chains <= 3,
polynomial degree <= 2, <= 3 symbolic parameters."""
import random
import re

COPS = ["==", "/=", "<", "<=", ">", ">="]


class Gen:
    def __init__(self, rnd, symbolic=True):
        self.r = rnd
        self.symbolic = symbolic
        self.params = []
        self.fin = {}      # finite var -> sorted list of values (ints or strings of fractions)
        self.num = []      # numeric vars in dependency order
        self.lines = []

    def prob(self):
        r = self.r
        if self.symbolic and len(self.params) < 3 and r.random() < 0.35:
            p = r.choice([q for q in ("p", "q", "r1") if q not in self.params] or ["p"])
            if p not in self.params:
                self.params.append(p)
            return p
        if self.params and r.random() < 0.2:
            return r.choice([p for p in self.params if p in ("p", "q", "r1")] or ["1/2"])
        return r.choice(["1/2", "1/3", "1/4", "2/3", "0.25", "0.1", "3/4", "1/5"])

    def coeff(self):
        r = self.r
        if self.symbolic and len(self.params) < 3 and r.random() < 0.15:
            c = r.choice([q for q in ("a", "c") if q not in self.params] or ["a"])
            if c not in self.params:
                self.params.append(c)
            return c
        return r.choice(["1", "2", "-1", "1/2", "3", "-2", "0.5", "1/3"])

    def fin_cond(self, depth=0):
        r = self.r
        v = r.choice(list(self.fin))
        vals = self.fin[v]
        k = r.random()
        if k < 0.7 or depth >= 1:
            cop = r.choice(COPS) if r.random() < 0.06 else r.choice([c for c in COPS if c != "/="])
            c = r.choice(vals + [vals[-1]] + ([str(int(vals[0]) - 1)] if str(vals[0]).lstrip("-").isdigit() else []))
            s = f"{v} {cop} {c}"
            return s
        if k < 0.8:
            return f"!({self.fin_cond(1)})"
        op = r.choice(["&&", "||"])
        return f"{self.fin_cond(1)} {op} {self.fin_cond(1)}"

    def fin_assign(self, v):
        r = self.r
        vals = self.fin[v]
        k = r.random()
        if vals == [0, 1]:
            if k < 0.45:
                return f"{v} = Bernoulli({self.prob()})"
            if k < 0.6:
                return f"{v} = 1 - {v}"
            if k < 0.8:
                return f"{v} = 1 {{{self.prob()}}} 0"
            others = [w for w in self.fin if w != v and self.fin[w] == [0, 1]]
            if others and k < 0.9:
                return f"{v} = {r.choice(others)}"
            return f"{v} = {r.choice([0, 1])}"
        if vals == [0, 1, 2]:
            if k < 0.4:
                return f"{v} = Categorical(1/2, 1/4, 1/4)" if r.random() < 0.6 else f"{v} = DiscreteUniform(0, 2)"
            if k < 0.7:
                return f"{v} = 0 {{{self.prob()}}} 1 {{1/4}} 2"
            return f"{v} = {r.choice(vals)}"
        # general value set: choice among constants
        if k < 0.6 and len(vals) >= 2:
            a, b = r.sample(vals, 2)
            return f"{v} = {a} {{{self.prob()}}} {b}"
        if len(vals) >= 3 and k < 0.8:
            a, b, c = r.sample(vals, 3)
            return f"{v} = {a} {{1/3}} {b} {{1/3}} {c}"
        return f"{v} = {r.choice(vals)}"

    def num_update(self, x, allow_draw=True):
        r = self.r
        i = self.num.index(x)
        lower = self.num[:i]
        k = r.random()
        fins = list(self.fin)
        if k < 0.3:
            d = r.choice(["1", "2", "-1", self.coeff()])
            e = r.choice(["1", "-1", "0", "3"])
            return f"{x} = {x} + {d} {{{self.prob()}}} {x} - {e}" if r.random() < 0.7 else \
                f"{x} = {self.coeff()}*{x} + {d} {{{self.prob()}}} {x}"
        if k < 0.45 and fins:
            f = r.choice(fins)
            if r.random() < 0.25:
                return f"{x} = {f}*{x} + {r.choice(['1', '0', '-1', f])}"   # finite variable times the variable itself (still linear in x)
            return f"{x} = {x} + {self.coeff()}*{f}" + (f"*{r.choice(fins)}" if r.random() < 0.3 else "")
        if k < 0.6 and lower:
            y = r.choice(lower)
            t = r.choice([f"{y}", f"{y}**2", f"{self.coeff()}*{y}", f"{y}*{r.choice(fins)}" if fins else y])
            return f"{x} = {self.coeff()}*{x} + {t}"
        if k < 0.8 and allow_draw:
            fam = r.choice(["Normal", "Uniform", "Laplace", "DistExp", "Gamma", "Beta", "Normal", "Uniform"])
            loc = r.choice([x, "0", "1"] + lower)
            if fam == "Normal":
                mu = r.choice([loc, f"{loc} - 1", f"1 - {loc}"])
                return f"{x} = Normal({mu}, {r.choice(['1', '4', '1/4', '2'])})"
            if fam == "Uniform":
                lo = r.choice([loc, f"{loc} - 1", f"{loc} + 1/2", f"2*{loc} - 1"])
                return f"{x} = Uniform({lo}, {loc} + {r.choice(['1', '2', '3/2'])})"
            if fam == "Laplace":
                return f"{x} = Laplace({loc}, {r.choice(['1', '2', '1/2'])})"
            if fam == "DistExp":
                return f"{x} = {x} + 1" if loc == x else f"{x} = DistExp({r.choice(['1', '2', '1/2'])})"
            if fam == "Gamma":
                return f"{x} = Gamma({r.choice(['1', '2', '3/2'])}, {r.choice(['1', '2', '1/2'])})"
            return f"{x} = Beta({r.choice(['1', '2', '1/2'])}, {r.choice(['1', '3'])})"
        if k < 0.9:
            return f"{x} = {self.coeff()}*{x} + {r.choice(['1', '-1', '2', self.coeff()])}"
        return f"{x} = {r.choice(['0', '1', x + ' + 1'])}"

    def block(self, depth, nst, ind):
        r = self.r
        out = []
        for _ in range(nst):
            k = r.random()
            if self.fin and depth < 2 and k < 0.35:
                nb = r.choice([1, 1, 2, 3])
                has_else = r.random() < 0.5
                for b in range(nb):
                    out.append(ind + ("if " if b == 0 else "elif ") + self.fin_cond() + ":")
                    out += self.block(depth + 1, r.choice([1, 1, 2]), ind + "    ")
                if has_else:
                    out.append(ind + "else:")
                    out += self.block(depth + 1, r.choice([1, 2]), ind + "    ")
                out.append(ind + "end")
            elif self.fin and k < 0.55 and (depth == 0 or r.random() < 0.3):
                out.append(ind + self.fin_assign(r.choice(list(self.fin))))
            elif len(self.num) >= 2 and k < 0.62:
                a, b = r.sample(self.num, 2)
                # simultaneous assignment: only linear exchanges keep the class
                kk = r.random()
                if kk < 0.42:
                    out.append(ind + f"{a}, {b} = {b}, {a}")
                elif kk < 0.84:
                    out.append(ind + f"{a}, {b} = {a} + {b}, {a}")
                else:
                    # a constant right-hand side whose target is read by a later right-hand side (reads the OLD value)
                    out.append(ind + f"{a}, {b} = {r.choice(['2', '0', '1/2'])}, {b} + {a}")
            else:
                out.append(ind + self.num_update(r.choice(self.num)))
        return out

    def program(self):
        r = self.r
        nf = r.choice([1, 1, 2, 2, 3])
        nn = r.choice([1, 2, 2, 3])
        names_f = ["f", "g", "h"][:nf]
        self.num = ["x", "y", "z"][:nn]
        types = []
        for v in names_f:
            k = r.random()
            if k < 0.55:
                self.fin[v] = [0, 1]
            elif k < 0.8:
                self.fin[v] = [0, 1, 2]
            else:
                self.fin[v] = r.choice([[-1, 0, 1], [1, 2, 3], ["-1/2", "1/2", 2], [0, 2, 4]])
        init = []
        for v in names_f:
            init.append(f"{v} = {r.choice(self.fin[v])}")
        sym_init = self.symbolic and r.random() < 0.3
        for x in self.num:
            kk = r.random()
            if sym_init and kk < 0.5:
                init.append(f"{x} = {x}0")
            elif kk < 0.15:
                pass  # left uninitialised: Polar's x0
            elif kk < 0.25:
                init.append(f"{x} = {r.choice(['Bernoulli(1/2)', 'Uniform(0, 1)', 'Normal(1, 1)'])}")
            else:
                init.append(f"{x} = {r.choice([0, 1, 2, -1, '1/2'])}")
        guard = "true"
        gk = r.random()
        if gk < 0.3:
            v = r.choice(names_f)
            guard = self.fin_cond(1) if r.random() < 0.5 else f"{v} == {self.fin[v][0]}"
        # a loop constant used in the body
        const = None
        if r.random() < 0.25:
            const = "k"
            init.insert(0, f"k = {r.choice(['2', '1/2', '3', 'a'])}")
            if init[0].endswith("a") and "a" not in self.params:
                self.params.append("a")
        body = self.block(0, r.choice([2, 3, 3, 4, 5]), "    ")
        if const:
            body.append(f"    {self.num[0]} = {self.num[0]} + k")
        # make sure every finite variable is assigned somewhere in the body (else it is a plain constant)
        import re
        assigned = "\n".join(body)
        for v in names_f:
            if not re.search(rf"(^|[\s,]){v} = ", assigned):
                body.insert(0, "    " + self.fin_assign(v))
        for x in self.num:
            if not re.search(rf"(^|[\s,]){x}(, \w+)? = ", assigned):
                body.append("    " + self.num_update(x, allow_draw=False))
        # declared types where inference cannot succeed (counters under a guard)
        text = ""
        if types:
            text += "types\n" + "\n".join("    " + t for t in types) + "\nend\n"
        text += "\n".join(init) + f"\nwhile {guard}:\n" + "\n".join(body) + "\nend\n"
        goals = list(self.num[:2])
        goals.append(f"{self.num[0]}**2")
        if len(self.num) > 1:
            goals.append(f"{self.num[0]}*{self.num[1]}")
        goals.append(f"{names_f[0]}*{self.num[0]}")
        goals.append(names_f[0])
        return text, goals


def programs(quick, seed, count=None):
    n = count if count is not None else (40 if quick else 400)
    out = []
    for i in range(n):
        rnd = random.Random(f"polar-family-{seed}-{i}")
        g = Gen(rnd, symbolic=(i % 3 != 0))
        text, goals = g.program()
        if i % 6 == 5:
            # variant: one finitely-valued variable is left uninitialised (Polar: symbolic initial value f0) -- its
            # type has to keep f0 wherever the variable can still hold it (guard false from the start, branch not taken)
            lines = text.split("\n")
            cand = [k for k, ln in enumerate(lines) if re.match(r"^[fgh] = ", ln)]
            if cand:
                del lines[random.Random(f"polar-family-uninit-{seed}-{i}").choice(cand)]
                text = "\n".join(lines)
        if quick:
            goals = goals[:4]
        out.append((f"gen/s{seed}/{i}", text, goals))
    return out
