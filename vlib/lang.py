"""The harness's own reading of the loop language.

 * IR (Prog / If / Assign / Simult / condition tuples) over QPoly expressions;
 * parse_text: an independent recursive-descent reader of .prob text (arithmetic is parsed by Python's own
   `ast`, i.e. with Python operator precedence, and turned into QPoly) -- it never calls Polar's parser;
 * read_polar: a reader of Polar's object model (Program, IfStatem, Assignment{condition,default}, Condition
   trees) at any normalisation stage; polynomials are converted by walking the expression tree (.args), never
   by re-parsing str() (identifiers such as `e`, `gamma`, `continue` would be reinterpreted).
"""
import ast
import re
from fractions import Fraction
from .qpoly import QPoly, inv, sqrt

# ----------------------------------------------------------------------------------------- IR


class Assign:
    """var = choice [(value, prob)...] | dist (family, params) | func (name, arg)   [ | cond : default ]"""

    def __init__(self, var, kind, payload, cond=("true",), default=None):
        self.var = var
        self.kind = kind
        self.payload = payload
        self.cond = cond
        self.default = default if default is not None else var

    def __repr__(self):
        c = "" if self.cond == ("true",) else f" | {cond_str(self.cond)} : {self.default}"
        if self.kind == "choice":
            if len(self.payload) == 1:
                return f"{self.var} = {self.payload[0][0]!r}{c}"
            return f"{self.var} = " + " ".join(f"{v!r} {{{p!r}}}" for v, p in self.payload) + c
        if self.kind == "dist":
            return f"{self.var} = {self.payload[0]}({', '.join(map(repr, self.payload[1]))}){c}"
        return f"{self.var} = {self.payload[0]}({self.payload[1]}){c}"


class Simult:
    def __init__(self, assigns):
        self.assigns = assigns

    def __repr__(self):
        return "simult[" + "; ".join(map(repr, self.assigns)) + "]"


class If:
    def __init__(self, conds, branches, else_branch=None, mutex=False):
        self.conds = conds
        self.branches = branches
        self.else_branch = else_branch
        self.mutex = mutex

    def __repr__(self):
        s = ""
        for i, (c, b) in enumerate(zip(self.conds, self.branches)):
            s += ("if " if i == 0 else " elif ") + cond_str(c) + ": " + "; ".join(map(repr, b))
        if self.else_branch:
            s += " else: " + "; ".join(map(repr, self.else_branch))
        return s + " end"


class Prog:
    def __init__(self, types, initial, guard, body):
        self.types = types  # var -> list[Fraction]
        self.initial = initial
        self.guard = guard
        self.body = body
        self.abstr = {}

    def assigned_vars(self, stmts=None):
        out = []

        def walk(ss):
            for s in ss:
                if isinstance(s, If):
                    for b in s.branches:
                        walk(b)
                    if s.else_branch:
                        walk(s.else_branch)
                elif isinstance(s, Simult):
                    walk(s.assigns)
                else:
                    if s.var not in out:
                        out.append(s.var)

        walk(self.initial + self.body if stmts is None else stmts)
        return out

    def all_assigns(self, stmts):
        out = []

        def walk(ss):
            for s in ss:
                if isinstance(s, If):
                    for b in s.branches:
                        walk(b)
                    if s.else_branch:
                        walk(s.else_branch)
                elif isinstance(s, Simult):
                    walk(s.assigns)
                else:
                    out.append(s)

        walk(stmts)
        return out

    def __repr__(self):
        return (f"types {self.types}\n" if self.types else "") + "\n".join(map(repr, self.initial)) + \
            f"\nwhile {cond_str(self.guard)}:\n  " + "\n  ".join(map(repr, self.body)) + "\nend"


def cond_str(c):
    k = c[0]
    if k in ("true", "false"):
        return k
    if k == "atom":
        return f"{c[1]!r} {c[2]} {c[3]!r}"
    if k == "not":
        return f"!({cond_str(c[1])})"
    return f"({cond_str(c[1])} {'&&' if k == 'and' else '||'} {cond_str(c[2])})"


def cond_symbols(c):
    k = c[0]
    if k in ("true", "false"):
        return set()
    if k == "atom":
        return c[1].symbols_deep() | c[3].symbols_deep()
    if k == "not":
        return cond_symbols(c[1])
    return cond_symbols(c[1]) | cond_symbols(c[2])


# ----------------------------------------------------------------------------------------- arithmetic via Python's ast

class LangError(Exception):
    pass


import keyword


def arith(text):
    """expression text -> QPoly with Python operator precedence"""
    text = text.strip()
    # identifiers that are Python keywords (a variable may be called `continue`) are renamed for ast.parse only
    text = re.sub(r"\b([A-Za-z_][A-Za-z_0-9]*)\b", lambda m: "kw__" + m.group(1) if keyword.iskeyword(m.group(1)) else m.group(1), text)
    try:
        tree = ast.parse(text, mode="eval").body
    except SyntaxError as e:
        raise LangError(f"arith syntax: {text!r}") from e
    return _ev(tree)


def _ev(n):
    if isinstance(n, ast.Constant):
        if isinstance(n.value, bool) or not isinstance(n.value, (int, float)):
            raise LangError("constant")
        if isinstance(n.value, int):
            return QPoly.const(n.value)
        # decimal literal denotes its decimal value; recover the literal text via repr (shortest round-trip)
        return QPoly.const(Fraction(repr(n.value)))
    if isinstance(n, ast.Name):
        return QPoly.var(n.id[4:] if n.id.startswith("kw__") else n.id)
    if isinstance(n, ast.UnaryOp):
        v = _ev(n.operand)
        if isinstance(n.op, ast.USub):
            return -v
        if isinstance(n.op, ast.UAdd):
            return v
        raise LangError("unary")
    if isinstance(n, ast.BinOp):
        if isinstance(n.op, ast.Pow):
            b = _ev(n.left)
            e = _ev(n.right)
            if not e.is_const():
                raise LangError("symbolic exponent")
            ev = e.cval()
            if ev.denominator == 1:
                return b ** int(ev)
            if ev.denominator == 2:
                r = sqrt(b)
                return r ** int(ev.numerator) if ev.numerator > 0 else inv(r) ** int(-ev.numerator)
            raise LangError("fractional exponent")
        a, b = _ev(n.left), _ev(n.right)
        if isinstance(n.op, ast.Add):
            return a + b
        if isinstance(n.op, ast.Sub):
            return a - b
        if isinstance(n.op, ast.Mult):
            return a * b
        if isinstance(n.op, ast.Div):
            return a / b
        raise LangError("binop")
    raise LangError(f"node {type(n).__name__}")


# ----------------------------------------------------------------------------------------- text reader

_TOK = re.compile(r"\s*(&&|\|\||==|/=|<=|>=|<|>|!|\(|\)|\*\*|[+\-*/]|[A-Za-z_][A-Za-z_0-9]*|\d+\.\d*|\.\d+|\d+)")
_COPS = {"==", "/=", "<=", ">=", "<", ">"}
_AOPS = {"+", "-", "*", "/", "**"}


def _tokens(s):
    out, pos = [], 0
    s = s.strip()
    while pos < len(s):
        m = _TOK.match(s, pos)
        if not m:
            raise LangError(f"cannot tokenise condition at {s[pos:]!r}")
        out.append(m.group(1))
        pos = m.end()
    return out


def parse_cond(text):
    toks = _tokens(text)
    c, i = _cond(toks, 0)
    if i != len(toks):
        raise LangError(f"trailing tokens in condition {text!r}")
    return c


def _match(toks, i):
    d = 0
    for j in range(i, len(toks)):
        if toks[j] == "(":
            d += 1
        elif toks[j] == ")":
            d -= 1
            if d == 0:
                return j
    raise LangError("unbalanced parenthesis")


def _cond(toks, i):
    left, i = _unit(toks, i)
    if i < len(toks) and toks[i] in ("&&", "||"):
        op = toks[i]
        right, i = _cond(toks, i + 1)  # the LALR grammar shifts: right-nested
        return (("and" if op == "&&" else "or"), left, right), i
    return left, i


def _unit(toks, i):
    if i >= len(toks):
        raise LangError("empty condition")
    t = toks[i]
    if t == "!":
        if toks[i + 1] != "(":
            raise LangError("! needs (")
        j = _match(toks, i + 1)
        c, k = _cond(toks, i + 2)
        if k != j:
            raise LangError("bad !()")
        return ("not", c), j + 1
    if t == "true" and (i + 1 == len(toks) or toks[i + 1] in ("&&", "||", ")")):
        return ("true",), i + 1
    if t == "false" and (i + 1 == len(toks) or toks[i + 1] in ("&&", "||", ")")):
        return ("false",), i + 1
    if t == "(":
        j = _match(toks, i)
        nxt = toks[j + 1] if j + 1 < len(toks) else None
        if nxt is None or nxt in ("&&", "||", ")"):
            c, k = _cond(toks, i + 1)
            if k != j:
                raise LangError("bad ()")
            return c, j + 1
    # atom: arith COP arith
    j, d = i, 0
    cop_at = None
    while j < len(toks):
        if toks[j] == "(":
            d += 1
        elif toks[j] == ")":
            if d == 0:
                break
            d -= 1
        elif d == 0 and toks[j] in ("&&", "||"):
            break
        elif d == 0 and toks[j] in _COPS:
            if cop_at is not None:
                raise LangError("two comparison operators")
            cop_at = j
        j += 1
    if cop_at is None:
        raise LangError("atom without comparison")
    l = arith(" ".join(toks[i:cop_at]))
    r = arith(" ".join(toks[cop_at + 1:j]))
    return ("atom", l, toks[cop_at], r), j


def _split_top(s, sep=","):
    out, d, cur = [], 0, ""
    for ch in s:
        if ch in "({":
            d += 1
        elif ch in ")}":
            d -= 1
        if ch == sep and d == 0:
            out.append(cur)
            cur = ""
        else:
            cur += ch
    out.append(cur)
    return [x.strip() for x in out]


DIST_NAMES = {"Bernoulli", "Normal", "Categorical", "Uniform", "DiscreteUniform", "Laplace", "DistExp",
              "TruncNormal", "Beta", "Gamma"}
FUNC_NAMES = {"Sin", "Cos", "Exp"}


def _rhs(var, text):
    text = text.strip()
    m = re.match(r"^([A-Z][A-Za-z_0-9]*)\s*\((.*)\)$", text, re.S)
    if m and "{" not in text:
        name, args = m.group(1), m.group(2)
        if name in FUNC_NAMES:
            a = args.strip()
            return Assign(var, "func", (name, a))
        if name in DIST_NAMES:
            params = [arith(a) for a in _split_top(args)] if args.strip() else []
            return Assign(var, "dist", (name, params))
        raise LangError(f"unknown distribution {name}")
    if "{" in text:
        parts = re.split(r"\{([^{}]*)\}", text)
        vals = [p for p in parts[0::2]]
        probs = [arith(p) for p in parts[1::2]]
        if vals and vals[-1].strip() == "":
            vals = vals[:-1]
        vals = [arith(v) for v in vals]
        if len(probs) == len(vals) - 1:
            rest = QPoly.const(1)
            for p in probs:
                rest = rest - p
            probs.append(rest)
        if len(probs) != len(vals):
            raise LangError("categorical shape")
        return Assign(var, "choice", list(zip(vals, probs)))
    return Assign(var, "choice", [(arith(text), QPoly.const(1))])


def parse_text(text):
    """independent reader of .prob text -> Prog"""
    lines = []
    for raw in text.replace("\r\n", "\n").split("\n"):
        ln = raw.split("#", 1)[0].strip()
        if ln:
            lines.append(ln)
    pos = 0
    types = {}
    if lines and lines[0] == "types" or (lines and lines[0].startswith("types") and lines[0][5:].strip() == ""):
        pos = 1
        while lines[pos] != "end":
            m = re.match(r"^([A-Za-z_][A-Za-z_0-9]*)\s*:\s*([A-Z][A-Za-z_0-9]*)\s*\((.*)\)$", lines[pos])
            if not m:
                raise LangError(f"typedef {lines[pos]!r}")
            var, tn, args = m.groups()
            vals = [arith(a) for a in _split_top(args)]
            if not all(v.is_const() for v in vals):
                raise LangError("symbolic type")
            vals = [v.cval() for v in vals]
            if tn == "FiniteRange":
                vals = [Fraction(i) for i in range(int(vals[0]), int(vals[1]) + 1)]
            elif tn != "Finite":
                raise LangError(f"type {tn}")
            types[var] = sorted(set(vals))
            pos += 1
        pos += 1

    def stmts(pos, stop):
        out = []
        while pos < len(lines):
            ln = lines[pos]
            first = re.match(r"^[A-Za-z_]+", ln)
            kw = first.group(0) if first else ""
            if kw in stop and (ln == kw or ln[len(kw)] in " :("):
                return out, pos
            if kw == "if" and ln[2] in " (!":
                conds, branches, els = [], [], None
                if not ln.endswith(":"):
                    raise LangError(f"if without colon: {ln!r}")
                conds.append(parse_cond(ln[2:-1]))
                b, pos = stmts(pos + 1, ("elif", "else", "end"))
                branches.append(b)
                while True:
                    ln = lines[pos]
                    if ln.startswith("elif"):
                        conds.append(parse_cond(ln[4:].rstrip()[:-1]))
                        b, pos = stmts(pos + 1, ("elif", "else", "end"))
                        branches.append(b)
                    elif re.match(r"^else\s*:$", ln):
                        els, pos = stmts(pos + 1, ("end",))
                    elif ln == "end":
                        pos += 1
                        break
                    else:
                        raise LangError(f"unexpected {ln!r}")
                out.append(If(conds, branches, els))
                continue
            # assignment(s)
            if "=" not in ln:
                raise LangError(f"not a statement: {ln!r}")
            m = re.match(r"^([A-Za-z_0-9,\s]+?)\s*=(?!=)(.*)$", ln)
            if not m:
                raise LangError(f"not an assignment: {ln!r}")
            lhs = [v.strip() for v in m.group(1).split(",")]
            rhs = _split_top(m.group(2))
            if len(lhs) != len(rhs):
                raise LangError(f"simultaneous assignment shape: {ln!r}")
            for v in lhs:
                if not re.match(r"^[A-Za-z_][A-Za-z_0-9]*$", v):
                    raise LangError(f"bad variable {v!r}")
            if len(lhs) == 1:
                out.append(_rhs(lhs[0], rhs[0]))
            else:
                out.append(Simult([_rhs(v, r) for v, r in zip(lhs, rhs)]))
            pos += 1
        if stop:
            raise LangError("unexpected end of text")
        return out, pos

    initial, pos = stmts(pos, ("while",))
    ln = lines[pos]
    if not ln.endswith(":"):
        raise LangError("while without colon")
    guard = parse_cond(ln[5:-1])
    body, pos = stmts(pos + 1, ("end",))
    if pos != len(lines) - 1:
        raise LangError("text after end")
    return Prog(types, initial, guard, body)


# ----------------------------------------------------------------------------------------- reader of Polar's object model

def expr2q(e):
    """symengine / sympy expression -> QPoly by walking .args"""
    if isinstance(e, QPoly):
        return e
    if isinstance(e, (int, Fraction)):
        return QPoly.const(Fraction(e))
    if isinstance(e, str):
        raise TypeError("expr2q does not re-parse strings")
    if e.is_Add:
        r = QPoly()
        for a in e.args:
            r = r + expr2q(a)
        return r
    if e.is_Mul:
        r = QPoly.const(1)
        for a in e.args:
            r = r * expr2q(a)
        return r
    if e.is_Pow:
        b, x = e.args
        if x.is_Integer:
            return expr2q(b) ** int(x)
        if x.is_Rational:
            p, q = _pq(x)
            if q == 2:
                r = sqrt(expr2q(b))
                return r ** p if p > 0 else inv(r) ** (-p)
        raise NotImplementedError(f"pow {e}")
    if e.is_Symbol:
        return QPoly.var(str(e))
    if e.is_Integer:
        return QPoly.const(int(e))
    if e.is_Rational:
        p, q = _pq(e)
        return QPoly.const(Fraction(p, q))
    if getattr(e, "is_Float", False):
        return QPoly.const(Fraction(str(e)))
    raise NotImplementedError(f"{e} {type(e).__name__}")


def _pq(x):
    if hasattr(x, "p") and hasattr(x, "q"):
        return int(x.p), int(x.q)
    n, d = x.get_num_den()
    return int(n), int(d)


def read_cond(c):
    from program.condition import Atom, And, Or, Not, TrueCond, FalseCond
    if isinstance(c, TrueCond):
        return ("true",)
    if isinstance(c, FalseCond):
        return ("false",)
    if isinstance(c, And):
        return ("and", read_cond(c.cond1), read_cond(c.cond2))
    if isinstance(c, Or):
        return ("or", read_cond(c.cond1), read_cond(c.cond2))
    if isinstance(c, Not):
        return ("not", read_cond(c.cond))
    if isinstance(c, Atom):
        return ("atom", expr2q(c.poly1), c.cop, expr2q(c.poly2))
    raise NotImplementedError(type(c).__name__)


_DIST_ATTRS = {
    "Bernoulli": ["p"], "Normal": ["mu", "sigma2"], "Uniform": ["a", "b"], "Laplace": ["mu", "b"],
    "Exponential": ["lamb"], "Gamma": ["k", "theta"], "Beta": ["a", "b", "scale"],
    "TruncNormal": ["mu", "sigma2", "a", "b"],
}


def read_dist(d):
    n = type(d).__name__
    if n == "Categorical":
        return ("Categorical", [expr2q(p) for p in d.probabilities])
    if n == "DiscreteUniform":
        return ("DiscreteUniform", [expr2q(d.values[0]), expr2q(d.values[-1])])
    if n in _DIST_ATTRS:
        fam = "DistExp" if n == "Exponential" else n
        return (fam, [expr2q(getattr(d, a)) for a in _DIST_ATTRS[n]])
    raise NotImplementedError(n)


def read_stmt(s):
    from program.assignment import PolyAssignment, DistAssignment, FunctionalAssignment
    from program.ifstatem import IfStatem
    if isinstance(s, IfStatem):
        return If([read_cond(c) for c in s.conditions], [[read_stmt(x) for x in b] for b in s.branches],
                  [read_stmt(x) for x in s.else_branch] if s.else_branch else None, s.mutually_exclusive)
    cond = read_cond(s.condition)
    var, default = str(s.variable), str(s.default)
    if isinstance(s, PolyAssignment):
        return Assign(var, "choice", [(expr2q(p), expr2q(pr)) for p, pr in zip(s.polynomials, s.probabilities)], cond, default)
    if isinstance(s, DistAssignment):
        return Assign(var, "dist", read_dist(s.distribution), cond, default)
    if isinstance(s, FunctionalAssignment):
        return Assign(var, "func", (s.func, str(s.argument)), cond, default)
    raise NotImplementedError(type(s).__name__)


def read_polar(program):
    from program.type import Finite
    types = {}
    for v, t in program.typedefs.items():
        if isinstance(t, Finite):
            vals = []
            ok = True
            for x in t.values:
                q = expr2q(x)
                if not q.is_const():
                    ok = False
                    break
                vals.append(q.cval())
            if ok:
                types[str(v)] = sorted(set(vals))
    prog = Prog(types, [read_stmt(s) for s in program.initial], read_cond(program.loop_guard),
                [read_stmt(s) for s in program.loop_body])
    # stand-ins for conditions over non-finite variables: probability symbol -> the condition it abbreviates
    prog.abstr = {str(k): read_cond(c) for k, c in getattr(program, "abstracted_const_store", {}).items()}
    return prog
