"""One loop iteration from a fully symbolic pre-state (used by C02, C03, C05, C10, C14).

The pre-state gives every variable of the program a symbol of its own name; typed variables are constrained to their
type, every other variable is an arbitrary real.  Because the pre-state is arbitrary, a verdict covers every reachable
state and therefore every n."""
import z3
from .qpoly import QPoly
from .lang import Prog
from .sem import Interp, assumptions_for_program


def type_constraints(prog: Prog, I: Interp, types=None, suffix=""):
    cons = []
    for v, vals in (types if types is not None else prog.types).items():
        x = I.zv(v + suffix)
        cons.append(z3.Or(*[x == z3.RealVal(f"{q.numerator}/{q.denominator}") for q in vals]))
    return cons


def one_iteration(prog: Prog, extra_assume=(), types=None, pre=None, max_paths=20000, param_vals=None):
    """-> (I, paths) after one iteration from the symbolic pre-state `pre` (default: every variable its own symbol)"""
    I = Interp(prog, max_paths=max_paths, param_vals=param_vals, unset_suffix="")
    for c in assumptions_for_program(prog, I):
        I.assume(c)
    for c in type_constraints(prog, I, types):
        I.assume(c)
    for c in extra_assume:
        I.assume(c)
    env = dict(pre) if pre is not None else {v: QPoly.var(v) for v in sorted(I.vars)}
    if param_vals:
        env = {k: I.val({}, q) for k, q in env.items()}
    paths = I.iteration(I.start(env))
    return I, paths
