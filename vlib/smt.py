"""Query manager: z3 (Python API) primary; SMT-LIB2 export; cross-check by the /usr/bin/z3 4.8.12 binary and cvc5.

`unknown`, a timeout or any `(error` line is inconclusive -- never reported as held.
Statistics are plain dicts so that worker processes can return them and the parent can add them up.
"""
import os
import subprocess
import tempfile
import time
from fractions import Fraction
import z3


def new_stats():
    return {"unsat": 0, "sat": 0, "unknown": 0, "solver_s": 0.0, "queries": 0, "samples": [],
            "xcheck": {"agree": 0, "disagree": 0, "inconclusive": 0, "solvers": []}}


def add_stats(a, b):
    for k in ("unsat", "sat", "unknown", "queries"):
        a[k] += b.get(k, 0)
    a["solver_s"] += b.get("solver_s", 0.0)
    for s in b.get("samples", []):
        if len(a["samples"]) < 6:
            a["samples"].append(s)
    for k in ("agree", "disagree", "inconclusive"):
        a["xcheck"][k] += b.get("xcheck", {}).get(k, 0)
    for s in b.get("xcheck", {}).get("solvers", []):
        if s not in a["xcheck"]["solvers"]:
            a["xcheck"]["solvers"].append(s)
    return a


def model_to_dict(m):
    out = {}
    for d in m.decls():
        if d.arity() != 0:
            continue
        v = m[d]
        try:
            if z3.is_rational_value(v):
                out[d.name()] = Fraction(v.numerator_as_long(), v.denominator_as_long())
            elif z3.is_algebraic_value(v):
                a = v.approx(30)
                out[d.name()] = Fraction(a.numerator_as_long(), a.denominator_as_long())
            elif z3.is_int_value(v):
                out[d.name()] = Fraction(v.as_long())
            elif z3.is_true(v) or z3.is_false(v):
                out[d.name()] = bool(z3.is_true(v))
        except Exception:
            pass
    return out


def decide(constraints, stats=None, timeout_ms=60000, tag="", keep_sample=True, xcheck=False, logic=None):
    """-> (verdict str, model dict or None)"""
    s = z3.Solver() if logic is None else z3.SolverFor(logic)
    s.set("timeout", int(timeout_ms))
    for c in constraints:
        s.add(c)
    t0 = time.time()
    r = s.check()
    dt = time.time() - t0
    verdict = str(r)
    model = model_to_dict(s.model()) if verdict == "sat" else None
    if stats is not None:
        stats["queries"] += 1
        stats[verdict] += 1
        stats["solver_s"] += dt
        if keep_sample and len(stats["samples"]) < 3:
            txt = s.to_smt2()
            if len(txt) < 6000:
                stats["samples"].append({"tag": tag, "verdict": verdict, "smt2": txt})
        if xcheck and verdict in ("sat", "unsat"):
            cross_check(s.to_smt2(), verdict, stats)
    return verdict, model


def _run(cmd, timeout):
    try:
        p = subprocess.run(cmd, capture_output=True, text=True, timeout=timeout)
        out = p.stdout + p.stderr
    except subprocess.TimeoutExpired:
        return "timeout"
    if "(error" in out:
        return "error"
    for ln in out.splitlines():
        ln = ln.strip()
        if ln in ("sat", "unsat", "unknown"):
            return ln
    return "error"


def cross_check(smt2, verdict, stats, timeout=20):
    """re-decide with the z3 4.8.12 binary and cvc5; a sat/unsat conflict is a harness error (counted as disagree)"""
    d = tempfile.mkdtemp(prefix="polar_verif_smt_")
    f = os.path.join(d, "q.smt2")
    try:
        with open(f, "w") as fh:
            fh.write(smt2)
        for name, cmd in (("z3-4.8.12", ["/usr/bin/z3", f"-T:{timeout}", f]),
                          ("cvc5-1.0.3", ["cvc5", f"--tlimit={timeout * 1000}", "--nl-cov", f])):
            if name not in stats["xcheck"]["solvers"]:
                stats["xcheck"]["solvers"].append(name)
            r = _run(cmd, timeout + 5)
            if r in ("sat", "unsat"):
                if r == verdict:
                    stats["xcheck"]["agree"] += 1
                else:
                    stats["xcheck"]["disagree"] += 1
            else:
                stats["xcheck"]["inconclusive"] += 1
    finally:
        try:
            os.remove(f)
            os.rmdir(d)
        except OSError:
            pass
