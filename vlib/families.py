"""Bounded, deterministic families of inputs (the structural bounds of the claims)."""
import glob
import os
import random
import re

ROOT = os.path.dirname(os.path.dirname(os.path.abspath(__file__)))
REPO = os.environ.get("POLAR_REPO", "/repo").rstrip("/")


def _goals(text):
    for ln in text.splitlines():
        if ln.startswith("#goals:"):
            return [g.strip() for g in ln[7:].split(";") if g.strip()]
    return []


def corpus(sub="corpus"):
    """hand-written seed corpus: one program per mechanism (DESIGN 2.7)"""
    out = []
    dirs = [os.path.join(ROOT, sub)]
    if sub == "corpus" and os.environ.get("VERIF_EXTRA_CORPUS"):
        dirs.append(os.environ["VERIF_EXTRA_CORPUS"])   # development only: try programs before adding them to the corpus
    for d in dirs:
        for f in sorted(glob.glob(os.path.join(d, "*.prob"))):
            text = open(f).read()
            out.append((os.path.basename(f)[:-5], text, _goals(text)))
    return out


_TEST_RE = re.compile(r"^#\s*test:\s*(.*)$")


def repo_benchmarks(quick, seed, limit_quick=24):
    """repo benchmarks: tests/benchmarks with their '#test:' specifications (translator validation), and the
    benchmarks/ tree with first moments of up to three source variables"""
    out = []
    for f in sorted(glob.glob(REPO + "/tests/benchmarks/*.prob")):
        text = open(f).read()
        goals = []
        for ln in text.splitlines():
            m = _TEST_RE.match(ln.strip())
            if m:
                parts = [p.strip() for p in m.group(1).split(";")]
                if len(parts) >= 2 and parts[0] == "raw":
                    goals.append(parts[1])
        goals = sorted(set(goals))[:4]
        if goals:
            out.append(("tests/" + os.path.basename(f)[:-5], text, goals))
    rest = []
    for f in sorted(glob.glob(REPO + "/benchmarks/**/*.prob", recursive=True)):
        text = open(f).read()
        rest.append(("bench/" + os.path.relpath(f, REPO + "/benchmarks")[:-5], text, ["@vars"]))
    rest = [r for r in rest if "/defective/" not in r[0] and "/development/" not in r[0]]
    fast = os.path.join(ROOT, "corpus", "bench_fast.txt")
    if quick:
        if os.path.exists(fast):
            ok = {l.strip() for l in open(fast) if l.strip()}
            rest = [r for r in rest if r[0] in ok]
        else:
            rest = []
        rnd = random.Random(seed)
        rnd.shuffle(rest)
        rest = rest[:limit_quick]
    return out + rest


def generated(quick, seed, count=None):
    from . import progfamily
    return progfamily.programs(quick, seed, count)


def symbolic_templates(quick, seed):
    """heavily symbolic templates (DESIGN 2.6): every coefficient, probability and initial value a symbol"""
    return [("sym/" + a, b, c) for a, b, c in corpus("corpus_sym")]
