"""Per-path symbolic execution of pure-Python control code with z3 proxies.

Values are wrappers around z3 terms; `__bool__` consults a decision script; infeasible sides are pruned with an
incremental solver; the function under test (the real object imported from /repo) is re-run once per feasible path.
Floats are modelled as reals (stated wherever used)."""
import z3


class Abort(Exception):
    pass


class Ctx:
    cur = None

    def __init__(self, assume=(), timeout_ms=10000):
        self.solver = z3.Solver()
        self.solver.set("timeout", timeout_ms)
        for a in assume:
            self.solver.add(a)
        self.script = []
        self.pos = 0
        self.pc = []
        self.nchecks = 0
        self.unknown = 0

    def decide(self, term):
        term = z3.simplify(term)
        if z3.is_true(term):
            return True
        if z3.is_false(term):
            return False
        if self.pos < len(self.script):
            d = self.script[self.pos]
        else:
            self.solver.push()
            self.solver.add(term)
            self.nchecks += 1
            rt = self.solver.check()
            self.solver.pop()
            self.solver.push()
            self.solver.add(z3.Not(term))
            self.nchecks += 1
            rf = self.solver.check()
            self.solver.pop()
            if rt == z3.unknown or rf == z3.unknown:
                self.unknown += 1
            ft, ff = rt != z3.unsat, rf != z3.unsat
            if ft and ff:
                d = [True, "both"]
            elif ft:
                d = [True, "only"]
            elif ff:
                d = [False, "only"]
            else:
                raise Abort()
            self.script.append(d)
        self.pos += 1
        c = term if d[0] else z3.Not(term)
        self.solver.add(c)
        self.pc.append(c)
        return d[0]


class SB:
    """symbolic bool"""

    def __init__(self, t):
        self.t = t

    def __bool__(self):
        return Ctx.cur.decide(self.t)

    def __and__(self, o):
        return SB(z3.And(self.t, o.t if isinstance(o, SB) else z3.BoolVal(bool(o))))

    def __or__(self, o):
        return SB(z3.Or(self.t, o.t if isinstance(o, SB) else z3.BoolVal(bool(o))))

    def __invert__(self):
        return SB(z3.Not(self.t))


def tz(v, real=False):
    if isinstance(v, SV):
        return v.t
    if isinstance(v, bool):
        return z3.IntVal(int(v))
    if isinstance(v, int):
        return z3.RealVal(v) if real else z3.IntVal(v)
    if isinstance(v, float):
        import fractions
        f = fractions.Fraction(repr(v))
        return z3.RealVal(f"{f.numerator}/{f.denominator}")
    raise TypeError(f"cannot lift {v!r}")


class _NaN(Exception):
    pass


class SV:
    """symbolic number (z3 Int or Real term)"""
    __hash__ = None

    def __init__(self, t):
        self.t = t

    def _r(self):
        return self.t.sort() == z3.RealSort()

    def _o(self, o):
        if isinstance(o, float) and o != o:
            raise _NaN()
        t = tz(o, real=self._r())
        if self._r() and t.sort() != z3.RealSort():
            t = z3.ToReal(t)
        return t

    def _s(self, ot):
        if ot.sort() == z3.RealSort() and not self._r():
            return z3.ToReal(self.t)
        return self.t

    def __gt__(s, o):
        try:
            ot = s._o(o)
        except _NaN:
            return SB(z3.BoolVal(False))
        return SB(s._s(ot) > ot)

    def __lt__(s, o):
        try:
            ot = s._o(o)
        except _NaN:
            return SB(z3.BoolVal(False))
        return SB(s._s(ot) < ot)

    def __ge__(s, o):
        try:
            ot = s._o(o)
        except _NaN:
            return SB(z3.BoolVal(False))
        return SB(s._s(ot) >= ot)

    def __le__(s, o):
        try:
            ot = s._o(o)
        except _NaN:
            return SB(z3.BoolVal(False))
        return SB(s._s(ot) <= ot)

    def __eq__(s, o):
        try:
            ot = s._o(o)
        except _NaN:
            return SB(z3.BoolVal(False))
        return SB(s._s(ot) == ot)

    def __ne__(s, o):
        try:
            ot = s._o(o)
        except _NaN:
            return SB(z3.BoolVal(True))
        return SB(s._s(ot) != ot)

    def __add__(s, o):
        ot = s._o(o)
        return SV(s._s(ot) + ot)

    __radd__ = __add__

    def __sub__(s, o):
        ot = s._o(o)
        return SV(s._s(ot) - ot)

    def __rsub__(s, o):
        ot = s._o(o)
        return SV(ot - s._s(ot))

    def __mul__(s, o):
        ot = s._o(o)
        return SV(s._s(ot) * ot)

    __rmul__ = __mul__

    def __truediv__(s, o):
        ot = s._o(o)
        a = s._s(ot)
        if a.sort() != z3.RealSort():
            a, ot = z3.ToReal(a), z3.ToReal(ot)
        return SV(a / ot)

    def __rtruediv__(s, o):
        ot = s._o(o)
        a = s._s(ot)
        if a.sort() != z3.RealSort():
            a, ot = z3.ToReal(a), z3.ToReal(ot)
        return SV(ot / a)

    def __neg__(s):
        return SV(-s.t)

    def __abs__(s):
        return SV(z3.If(s.t >= 0, s.t, -s.t))

    def __float__(s):
        raise TypeError("symbolic value used where a concrete float is required")

    def __repr__(s):
        return f"SV({s.t})"


def explore(fn, assume=(), timeout_ms=10000, max_paths=200000):
    """runs fn() over all feasible paths; yields (ctx, result or exception)"""
    script = []
    n = 0
    while n < max_paths:
        ctx = Ctx(assume, timeout_ms)
        ctx.script = script
        Ctx.cur = ctx
        try:
            res = fn()
            yield ctx, res
        except Abort:
            pass
        except Exception as e:  # the function under test raised on this path
            yield ctx, e
        n += 1
        script = ctx.script
        while script and not (script[-1][1] == "both" and script[-1][0] is True):
            script.pop()
        if not script:
            break
        script[-1] = [False, "done"]
