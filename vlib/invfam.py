"""Shared machinery of C06 / C07: tuples of exponential-polynomial closed forms, the real InvariantIdeal run on them,
all-n identity queries (prime-power abstraction) and the LRA completeness query."""
import itertools
import random
from fractions import Fraction
from . import polar_iface  # noqa
from . import smt
from .s2z import Tr, N1, N2, Untranslatable
from .expo import pow_hook_factory, general_branch

RATIONAL_ATOMS = ["2**n", "4**n", "8**n", "3**n", "9**n", "6**n", "12**n", "(1/2)**n", "(1/3)**n", "(1/4)**n", "(2/3)**n", "(3/2)**n", "(9/4)**n",
                  "(-1)**n", "(-2)**n", "(-1/2)**n", "(-4)**n", "n", "n**2", "n*(n+1)/2", "2*n+1", "n**3", "1"]
COMBOS = ["{a}", "{a}", "{a} + {b}", "{a} - {b}", "n*{a}", "{a} + n", "2*{a} - 1", "{a}*{b}", "{a} + {b} + 1", "3*{a}", "{a}/2 + {b}/3"]
IRRATIONAL_TUPLES = [
    ["((1+sqrt(5))/2)**n", "((1-sqrt(5))/2)**n"],
    ["(((1+sqrt(5))/2)**n - ((1-sqrt(5))/2)**n)/sqrt(5)", "((1+sqrt(5))/2)**n + ((1-sqrt(5))/2)**n"],
    ["sqrt(2)**n", "2**n"],
    ["I**n + (-I)**n", "(-1)**n"],
    ["(1+I)**n + (1-I)**n", "2**n"],
    ["(I**n - (-I)**n)/(2*I)", "(I**n + (-I)**n)/2"],
    ["sqrt(2)**n + (-sqrt(2))**n", "2**n", "n"],
    ["(((1+sqrt(5))/2)**n - ((1-sqrt(5))/2)**n)/sqrt(5)", "(((1+sqrt(5))/2)**(n+1) - ((1-sqrt(5))/2)**(n+1))/sqrt(5)"],
]
MUST = [["4**n", "8**n"], ["2**n", "4**n"], ["2**n", "(1/2)**n"], ["4**n", "(1/2)**n"], ["(-4)**n", "8**n"], ["(9/4)**n", "(3/2)**n"], ["n", "n**2"],
        ["2**n", "3**n", "6**n"], ["n", "2**n"], ["(-1)**n", "n"], ["2**n + n", "4**n", "n"], ["n*2**n", "2**n", "n"], ["1", "2**n"], ["2**n", "3**n"],
        ["(-2)**n", "4**n"], ["12**n", "2**n", "3**n"], ["2**n", "3**n", "4**n"], ["2**n", "3**n", "(1/2)**n"], ["3**n", "2**n", "5**n", "9**n"], ["n*(n+1)/2", "n"], ["2**n - 1", "2**n"], ["(2/3)**n", "(3/2)**n"], ["(-1/2)**n", "(1/4)**n"]]


def tuples(quick, seed):
    rnd = random.Random(f"inv-{seed}")
    out = [(t, True) for t in MUST]
    n = 60 if quick else 1200
    for _ in range(n):
        k = rnd.choice([2, 2, 3, 3, 4] if not quick else [2, 2, 3])
        t = []
        for _ in range(k):
            c = rnd.choice(COMBOS)
            a, b = rnd.choice(RATIONAL_ATOMS), rnd.choice(RATIONAL_ATOMS)
            t.append(c.format(a=f"({a})", b=f"({b})"))
        out.append((t, True))
    out += [(t, False) for t in IRRATIONAL_TUPLES]
    seen, res = set(), []
    for t, rat in out:
        if tuple(t) not in seen:
            seen.add(tuple(t))
            res.append((t, rat))
    return res


def parse_cf(s):
    import sympy as sp
    return sp.sympify(s, locals={"n": N1})


def run_real(tup, timeout=120, counter=0):
    """the real InvariantIdeal on the tuple -> (goal symbols, closed forms, basis) ; raises.
    `counter` fresh names are drawn first: the result must not depend on the state of the process-wide name counter
    (earlier analyses in the same process advance it)."""
    import sympy as sp
    from invariants.invariant_ideal import InvariantIdeal
    from utils import get_unique_var
    for _ in range(counter):
        get_unique_var()
    cfs = {f"g{i}": parse_cf(s) for i, s in enumerate(tup)}
    with polar_iface.time_limit(timeout):
        basis = InvariantIdeal(dict(cfs)).compute_basis()
    return [sp.Symbol(f"g{i}") for i in range(len(tup))], [cfs[f"g{i}"] for i in range(len(tup))], [sp.expand(b) for b in basis]


def identity_all_n(poly, gsyms, cfs, stats, tag, timeout_ms=30000):
    """decide whether poly(closed forms) == 0 identically in (n, p^n abstractions).  -> verdict of the negated query"""
    import z3
    import sympy as sp
    reg = {}
    zs = {"n": z3.Real("n")}

    def zv(nm):
        if nm not in zs:
            zs[nm] = z3.Real(nm)
        return zs[nm]
    t = Tr(sym=zv, pow_n=pow_hook_factory(reg))
    e = sp.expand(poly.xreplace(dict(zip(gsyms, cfs))))
    re, im = t.tr(e)
    neq = re != 0 if im is None else z3.Or(re != 0, im != 0)
    v, m = smt.decide(t.constraints() + [neq], stats, timeout_ms, tag=tag)
    return v


def exact_values(cfs, ns):
    """exact rational values of rational-base closed forms at concrete n (Fractions; sympy only substitutes n)"""
    import sympy as sp
    rows = []
    for k in ns:
        row = []
        for cf in cfs:
            v = sp.expand(cf.xreplace({N1: sp.Integer(k), N2: sp.Integer(k)}))
            if not v.is_Rational:
                v = sp.simplify(v)
            if not v.is_Rational:
                raise Untranslatable(f"non-rational value {v}")
            row.append(Fraction(int(v.p), int(v.q)))
        rows.append(row)
    return rows


def monomials(k, D):
    out = []
    for e in itertools.product(range(D + 1), repeat=k):
        if sum(e) <= D:
            out.append(e)
    return sorted(out, key=lambda e: (sum(e), e))


def completeness_query(gsyms, cfs, basis, D, stats, tag, n0=0, rounds=3):
    """exists c: V c = 0 (polynomial q = sum c_m m vanishes on the sample) and q not in <basis>  (degree <= D).
    -> ('unsat', None) | ('witness', q sympy) | ('inconclusive', why)"""
    import sympy as sp
    import z3
    k = len(gsyms)
    mons = monomials(k, D)
    # normal forms modulo a Groebner basis computed by the harness from the reported generators
    if basis:
        G = sp.groebner(basis, *gsyms, order="grevlex", domain=sp.QQ)
    rems = []
    for e in mons:
        m = sp.prod([g ** x for g, x in zip(gsyms, e)])
        r = G.reduce(m)[1] if basis else m
        rems.append(sp.Poly(r, *gsyms).as_dict())
    rem_mons = sorted({t for r in rems for t in r})
    cvars = [z3.Real(f"c{i}") for i in range(len(mons))]
    notin = z3.Or(*[sum((z3.RealVal(str(sp.Rational(r[t]))) * cvars[i] for i, r in enumerate(rems) if t in r), z3.RealVal(0)) != 0 for t in rem_mons]) \
        if rem_mons else z3.BoolVal(False)
    L = len(mons) + 4
    for rnd in range(rounds):
        vals = exact_values(cfs, range(n0, n0 + L))
        cons = []
        for row in vals:
            acc = z3.RealVal(0)
            for i, e in enumerate(mons):
                mv = Fraction(1)
                for v, x in zip(row, e):
                    mv *= v ** x
                if mv != 0:
                    acc = acc + z3.RealVal(f"{mv.numerator}/{mv.denominator}") * cvars[i]
            cons.append(acc == 0)
        v, model = smt.decide(cons + [notin], stats, 60000, tag=tag + f":complete:D={D}:rows={L}", keep_sample=(rnd == 0))
        if v == "unsat":
            return "unsat", None
        if v != "sat":
            return "inconclusive", "solver unknown"
        q = sp.Integer(0)
        for i, e in enumerate(mons):
            c = model.get(f"c{i}", 0)
            if c:
                q += sp.Rational(c.numerator, c.denominator) * sp.prod([g ** x for g, x in zip(gsyms, e)])
        # promote: does q vanish for ALL n (identity in n and the prime powers)?
        if identity_all_n(q, gsyms, cfs, stats, tag + ":promote") == "unsat":
            return "witness", q
        L += 8
    return "inconclusive", "witnesses on the sample did not promote to identities"
