"""Reference moments of the built-in families, written from the textbook recurrences -- not from Polar.

Location/scale families are *defined* by the standard primitive (trusted base):
  Normal(mu, s2) = mu + sqrt(s2)*N(0,1);  Uniform(a,b) = a + (b-a)*U(0,1);  Laplace(mu,b) = mu + b*L(0,1);
  DistExp(lam) = E(1)/lam;  Gamma(k,theta) = theta*G(k,1);  Beta(a,b,scale) = scale*B(a,b).
All functions take QPoly parameters and return QPoly.
"""
from fractions import Fraction
from math import comb, factorial
from .qpoly import QPoly, inv

DISCRETE = {"Bernoulli", "Categorical", "DiscreteUniform"}
CONTINUOUS = {"Normal", "Uniform", "Laplace", "DistExp", "Gamma", "Beta", "TruncNormal"}


class Unsupported(Exception):
    pass


def discrete_outcomes(family, params):
    """[(value QPoly, probability QPoly)]"""
    if family == "Bernoulli":
        p = params[0]
        return [(QPoly.const(1), p), (QPoly.const(0), 1 - p)]
    if family == "Categorical":
        return [(QPoly.const(i), p) for i, p in enumerate(params)]
    if family == "DiscreteUniform":
        if not (params[0].is_const() and params[1].is_const()):
            raise Unsupported("symbolic DiscreteUniform bounds")
        a, b = params[0].cval(), params[1].cval()
        if a.denominator != 1 or b.denominator != 1 or b < a:
            raise Unsupported("DiscreteUniform bounds")
        n = int(b - a) + 1
        return [(QPoly.const(a + i), QPoly.const(Fraction(1, n))) for i in range(n)]
    raise Unsupported(family)


def moment(family, params, k):
    """k-th raw moment E[X^k]"""
    k = int(k)
    if k == 0:
        return QPoly.const(1)
    if family in DISCRETE:
        r = QPoly()
        for v, p in discrete_outcomes(family, params):
            r = r + (v ** k) * p
        return r
    if family == "Normal":
        mu, s2 = params
        m = [QPoly.const(1), mu]
        for j in range(1, k):
            m.append(mu * m[j] + j * s2 * m[j - 1])  # m_{j+1} = mu m_j + j s2 m_{j-1}
        return m[k]
    if family == "Uniform":
        a, b = params
        r = QPoly()
        for j in range(k + 1):
            r = r + a ** j * b ** (k - j)
        return r * Fraction(1, k + 1)
    if family == "Laplace":
        mu, b = params
        r = QPoly()
        for j in range(0, k + 1, 2):
            r = r + comb(k, j) * factorial(j) * mu ** (k - j) * b ** j
        return r
    if family == "DistExp":
        lam = params[0]
        return factorial(k) * inv(lam) ** k
    if family == "Gamma":
        kk, th = params
        r = QPoly.const(1)
        for j in range(k):
            r = r * (kk + j) * th
        return r
    if family == "Beta":
        a, b = params[0], params[1]
        sc = params[2] if len(params) > 2 else QPoly.const(1)
        r = QPoly.const(1)
        for j in range(k):
            r = r * (a + j) * inv(a + b + j)
        return sc ** k * r
    raise Unsupported(f"no algebraic reference moments for {family}")


PHI0 = "@phi0"   # the constant 1/sqrt(2*pi) (density of the standard normal at 0), kept as a bounded symbol


def trunc_moment(family, params, k, lo, hi):
    """E[X^k 1(lo < X < hi)] for rational (or absent) bounds -- the families/thresholds with an algebraic value:
    Uniform with constant bounds (any thresholds), Normal and Laplace cut at their location"""
    k = int(k)
    if lo is None and hi is None:
        return moment(family, params, k)
    if family == "Uniform":
        if not (params[0].is_const() and params[1].is_const()):
            raise Unsupported("threshold on a Uniform draw with symbolic bounds")
        a, b = params[0].cval(), params[1].cval()
        l = a if lo is None else max(a, lo)
        h = b if hi is None else min(b, hi)
        if l >= h:
            return QPoly()
        return QPoly.const((h ** (k + 1) - l ** (k + 1)) / ((k + 1) * (b - a)))
    if family in ("Normal", "Laplace"):
        mu = params[0]
        if not mu.is_const() or (lo is not None and hi is not None) or (lo if lo is not None else hi) != mu.cval():
            raise Unsupported(f"threshold on a {family} draw away from its location")
        sign = 1 if hi is None else -1      # upper half (x > mu) or lower half (x < mu)
        if family == "Normal":
            from .qpoly import sqrt
            sc = sqrt(params[1])
            half = []
            for j in range(k + 1):      # E[Z^j 1(Z > 0)]
                dfact = 1
                for t in range(j - 1, 0, -2):
                    dfact *= t
                half.append(QPoly.const(Fraction(dfact, 2)) if j % 2 == 0 else QPoly.var(PHI0) * dfact)
        else:
            sc = params[1]
            half = [QPoly.const(Fraction(factorial(j), 2)) for j in range(k + 1)]
        r = QPoly()
        for j in range(k + 1):
            r = r + comb(k, j) * mu ** (k - j) * sc ** j * half[j] * (sign ** j)
        return r
    raise Unsupported(f"threshold on a {family} draw")


def support(family, params):
    """reference support as ('set', [values]) or ('interval', lo|None, hi|None) (closed)"""
    if family in DISCRETE:
        return ("set", [v for v, _ in discrete_outcomes(family, params)])
    if family == "Normal" or family == "Laplace":
        return ("interval", None, None)
    if family == "Uniform":
        return ("interval", params[0], params[1])
    if family in ("DistExp", "Gamma"):
        return ("interval", QPoly.const(0), None)
    if family == "Beta":
        return ("interval", QPoly.const(0), params[2] if len(params) > 2 else QPoly.const(1))
    if family == "TruncNormal":
        return ("interval", params[2], params[3])
    raise Unsupported(family)


def param_assumptions(family, params, env, side=None):
    """admissibility of the parameters as z3 constraints (list)"""
    out = []
    z = lambda q: q.to_z3(env, side)
    if family == "Bernoulli":
        out += [z(params[0]) >= 0, z(params[0]) <= 1]
    elif family == "Categorical":
        tot = QPoly()
        for p in params:
            out.append(z(p) >= 0)
            tot = tot + p
        out.append(z(tot) == 1)
    elif family == "Normal":
        out.append(z(params[1]) > 0)
    elif family == "Uniform":
        out.append(z(params[0]) < z(params[1]))
    elif family == "Laplace":
        out.append(z(params[1]) > 0)
    elif family == "DistExp":
        out.append(z(params[0]) > 0)
    elif family == "Gamma":
        out += [z(params[0]) > 0, z(params[1]) > 0]
    elif family == "Beta":
        out += [z(params[0]) > 0, z(params[1]) > 0]
        if len(params) > 2:
            out.append(z(params[2]) > 0)
    elif family == "TruncNormal":
        out += [z(params[1]) > 0, z(params[2]) < z(params[3])]
    return out
