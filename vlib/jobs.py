"""Fork-per-job runner.  Polar keeps process-global state (unique-name counter, lru_caches, settings, class
flags), so every job that drives the real code runs in a freshly forked child of a parent that has imported the
modules but never executed an analysis.  A job that exceeds its timeout is killed and reported as such."""
import os
import pickle
import signal
import sys
import time
import traceback


LAST_ELAPSED = []


def run_jobs(func, args_list, nproc=None, timeout=120, progress=None):
    """-> list of ('ok', value) | ('timeout', None) | ('crash', text), in the order of args_list"""
    nproc = nproc or int(os.environ.get("VERIF_NPROC", os.cpu_count() or 4))
    results = [None] * len(args_list)
    global LAST_ELAPSED
    LAST_ELAPSED = [0.0] * len(args_list)
    pending = list(enumerate(args_list))[::-1]
    live = {}  # pid -> (idx, read fd, t0, buf)
    done = 0
    while pending or live:
        while pending and len(live) < nproc:
            idx, args = pending.pop()
            r, w = os.pipe()
            sys.stdout.flush()
            sys.stderr.flush()
            pid = os.fork()
            if pid == 0:
                os.close(r)
                code = 0
                try:
                    try:
                        val = ("ok", func(*args) if isinstance(args, tuple) else func(args))
                    except BaseException as e:  # noqa
                        val = ("crash", f"{type(e).__name__}: {e}\n{traceback.format_exc()[-1500:]}")
                    data = pickle.dumps(val)
                    with os.fdopen(w, "wb") as fh:
                        fh.write(data)
                except BaseException:
                    code = 3
                os._exit(code)
            os.close(w)
            os.set_blocking(r, False)
            live[pid] = [idx, r, time.time(), b""]
        time.sleep(0.02)
        for pid in list(live):
            idx, r, t0, buf = live[pid]
            try:
                while True:
                    chunk = os.read(r, 1 << 16)
                    if not chunk:
                        break
                    live[pid][3] += chunk
            except BlockingIOError:
                pass
            wpid, status = os.waitpid(pid, os.WNOHANG)
            if wpid == pid:
                try:
                    while True:
                        chunk = os.read(r, 1 << 16)
                        if not chunk:
                            break
                        live[pid][3] += chunk
                except (BlockingIOError, OSError):
                    pass
                os.close(r)
                buf = live[pid][3]
                try:
                    results[idx] = pickle.loads(buf)
                except Exception:
                    results[idx] = ("crash", f"child exited with status {status} and no result")
                LAST_ELAPSED[idx] = time.time() - t0
                del live[pid]
                done += 1
                if progress:
                    progress(done, len(args_list))
            elif time.time() - t0 > timeout:
                try:
                    os.kill(pid, signal.SIGKILL)
                    os.waitpid(pid, 0)
                except OSError:
                    pass
                os.close(r)
                results[idx] = ("timeout", None)
                LAST_ELAPSED[idx] = time.time() - t0
                del live[pid]
                done += 1
                if progress:
                    progress(done, len(args_list))
    return results


def slowest(items, key, n=8):
    order = sorted(range(len(items)), key=lambda i: -LAST_ELAPSED[i])[:n]
    return [(round(LAST_ELAPSED[i], 1), key(items[i])) for i in order]
