"""Thin drivers of the real code in /repo (called inside forked job processes; see jobs.py)."""
import signal
import sys

import os

# the repository under analysis; /repo unless a development run points POLAR_REPO at a scratch copy
REPO = os.environ.get("POLAR_REPO", "/repo").rstrip("/")
if REPO not in sys.path:
    sys.path.insert(0, REPO)

SETTINGS_DEFAULTS = dict(transform_categoricals=False, cond2arithm=False, disable_type_inference=False,
                         type_fp_iterations=100, numeric_roots=False, numeric_croots=False, numeric_eps=1e-10,
                         trivial_guard=False, exact_func_moments=False)


class JobTimeout(Exception):
    pass


def _alarm(*a):
    raise JobTimeout()


class time_limit:
    def __init__(self, seconds):
        self.s = int(max(1, seconds))

    def __enter__(self):
        self.old = signal.signal(signal.SIGALRM, _alarm)
        signal.alarm(self.s)

    def __exit__(self, *a):
        signal.alarm(0)
        signal.signal(signal.SIGALRM, self.old)
        return False


def set_settings(**kw):
    import settings
    for k, v in SETTINGS_DEFAULTS.items():
        setattr(settings, k, v)
    for k, v in kw.items():
        if k not in SETTINGS_DEFAULTS:
            raise KeyError(k)
        setattr(settings, k, v)


def parse(text):
    from inputparser import Parser
    return Parser().parse_string(text)


def normalized(text, **opts):
    from program import normalize_program
    set_settings(**opts)
    return normalize_program(parse(text))


def exc_info(e):
    import traceback
    tb = traceback.extract_tb(e.__traceback__)
    where = ""
    for fr in reversed(tb):
        if REPO + "/" in fr.filename:
            where = f"{fr.filename.replace(REPO + '/', '')}:{fr.name}"
            break
    return {"type": type(e).__name__, "msg": str(e)[:200], "where": where}


def closed_forms(text, goals, per_goal_timeout=60, force_cyclic=False, **opts):
    """-> dict(program=Program|None, exc=..., goals={goal: {'cf':expr,'exact':bool,'solver':str} | {'exc':...} | {'timeout':True}})"""
    from symengine import sympify
    from recurrences import RecBuilder
    from recurrences.solver import RecurrenceSolver
    out = {"program": None, "exc": None, "goals": {}}
    try:
        with time_limit(per_goal_timeout):
            program = normalized(text, **opts)
    except JobTimeout:
        out["exc"] = {"type": "Timeout", "msg": "normalize_program", "where": ""}
        return out
    except Exception as e:
        out["exc"] = exc_info(e)
        return out
    out["program"] = program
    rb = RecBuilder(program)
    for g in goals:
        try:
            with time_limit(per_goal_timeout):
                m = sympify(g)
                rec = rb.get_recurrences(m)
                s = RecurrenceSolver(rec, force_cyclic_solver=force_cyclic)
                cf = s.get(m)
                out["goals"][g] = {"cf": cf, "exact": s.is_exact, "solver": type(s.solver).__name__, "rec": rec}
        except JobTimeout:
            out["goals"][g] = {"timeout": True}
        except Exception as e:
            out["goals"][g] = {"exc": exc_info(e)}
    return out
