"""Sparse multivariate polynomials over Q, independent of sympy/symengine.

Symbols are plain strings.  Non-polynomial atoms of parameters (inverse of a polynomial, square root of a
polynomial) are symbols whose name is registered in ATOMS with their defining polynomial; to_z3 / evalq
resolve them (and to_z3 records the `!= 0` / `>= 0` side conditions the caller has to assume).
Path merging must never key on hash(): hash(-1) == hash(-2) in Python.  Use .key().
"""
from fractions import Fraction
import z3

ATOMS = {}  # name -> (kind, QPoly)   kind in {"inv", "sqrt"}


class QPoly:
    __slots__ = ("t",)

    def __init__(self, t=None):
        self.t = {k: v for k, v in (t or {}).items() if v != 0}

    # ---- constructors
    @staticmethod
    def const(c):
        return QPoly({(): Fraction(c)})

    @staticmethod
    def var(name):
        return QPoly({((name, 1),): Fraction(1)})

    @staticmethod
    def _c(b):
        return b if isinstance(b, QPoly) else QPoly.const(b)

    # ---- arithmetic
    def __add__(a, b):
        b = QPoly._c(b)
        t = dict(a.t)
        for k, v in b.t.items():
            t[k] = t.get(k, 0) + v
        return QPoly(t)

    __radd__ = __add__

    def __neg__(a):
        return QPoly({k: -v for k, v in a.t.items()})

    def __sub__(a, b):
        return a + (-QPoly._c(b))

    def __rsub__(a, b):
        return QPoly._c(b) - a

    def __mul__(a, b):
        b = QPoly._c(b)
        if len(a.t) == 1 and () in a.t:
            c = a.t[()]
            return QPoly({k: v * c for k, v in b.t.items()})
        if len(b.t) == 1 and () in b.t:
            c = b.t[()]
            return QPoly({k: v * c for k, v in a.t.items()})
        t = {}
        for k1, v1 in a.t.items():
            for k2, v2 in b.t.items():
                if not k1:
                    k = k2
                elif not k2:
                    k = k1
                else:
                    d = dict(k1)
                    for s, p in k2:
                        d[s] = d.get(s, 0) + p
                    k = tuple(sorted(d.items()))
                t[k] = t.get(k, 0) + v1 * v2
        return QPoly(_simplify_atoms(t))

    __rmul__ = __mul__

    def __pow__(a, n):
        n = int(n)
        if n < 0:
            return inv(a) ** (-n)
        r = QPoly.const(1)
        for _ in range(n):
            r = r * a
        return r

    def __truediv__(a, b):
        b = QPoly._c(b)
        if b.is_const():
            return a * (Fraction(1) / b.cval())
        return a * inv(b)

    def __rtruediv__(a, b):
        return QPoly._c(b) / a

    # ---- inspection
    def symbols(a):
        return {s for k in a.t for s, _ in k}

    def is_const(a):
        return all(k == () for k in a.t)

    def is_zero(a):
        return not a.t

    def cval(a):
        return a.t.get((), Fraction(0))

    def degree(a, names=None):
        return max((sum(p for s, p in k if names is None or s in names) for k in a.t), default=0)

    def key(a):
        return tuple(sorted((k, (v.numerator, v.denominator)) for k, v in a.t.items()))

    def __eq__(a, b):
        return a.t == QPoly._c(b).t

    def __hash__(a):  # only for use in sets of identical objects; merging uses key()
        return hash(a.key())

    def __repr__(a):
        if not a.t:
            return "0"
        out = []
        for k, v in sorted(a.t.items()):
            m = "*".join(s if p == 1 else f"{s}^{p}" for s, p in k)
            out.append(f"{v}" if not m else (m if v == 1 else f"{v}*{m}"))
        return " + ".join(out)

    # ---- substitution / evaluation
    def subs(a, m):
        """m: name -> QPoly (simultaneous substitution; atoms are not entered)"""
        if not m or not (a.symbols() & set(m)):
            return a
        r = QPoly()
        cache = {}
        for k, v in a.t.items():
            term = QPoly.const(v)
            for s, p in k:
                if s in m:
                    ck = (s, p)
                    if ck not in cache:
                        cache[ck] = QPoly._c(m[s]) ** p
                    term = term * cache[ck]
                else:
                    term = term * QPoly({((s, p),): Fraction(1)})
            r = r + term
        return r

    def subs_deep(a, m):
        """substitution that also rewrites inside atoms (inv/sqrt of polynomials containing substituted names)"""
        mm = dict(m)
        for s in a.symbols():
            if s in ATOMS and s not in mm and ATOMS[s][0] != "fn":
                kind, body = ATOMS[s]
                if body.symbols_deep() & set(m):
                    nb = body.subs_deep(m)
                    mm[s] = inv(nb) if kind == "inv" else sqrt(nb)
        return a.subs(mm)

    def symbols_deep(a):
        out = set()
        for s in a.symbols():
            if s in ATOMS and ATOMS[s][0] != "fn":
                out |= ATOMS[s][1].symbols_deep()
            elif s not in ATOMS:
                out.add(s)
        return out

    def map_monomials(a, names, f):
        """replace, in every term, the sub-monomial over `names` by the polynomial f({name: power})"""
        r = QPoly()
        for k, v in a.t.items():
            inside = {s: p for s, p in k if s in names}
            if not inside:
                r = r + QPoly({k: v})
                continue
            outside = tuple((s, p) for s, p in k if s not in names)
            r = r + QPoly({outside: v}) * f(inside)
        return r

    def diff(a, name):
        """partial derivative; atoms depending on `name` are differentiated by the chain rule"""
        r = QPoly()
        for k, v in a.t.items():
            for i, (s, p) in enumerate(k):
                ds = None
                if s == name:
                    ds = QPoly.const(1)
                elif s in ATOMS and ATOMS[s][0] != "fn" and name in ATOMS[s][1].symbols_deep():
                    kind, body = ATOMS[s]
                    if kind == "inv":
                        ds = -(QPoly.var(s) ** 2) * body.diff(name)
                    else:
                        ds = body.diff(name) * inv(QPoly.var(s) * 2)
                if ds is None:
                    continue
                rest = list(k)
                if p == 1:
                    rest.pop(i)
                else:
                    rest[i] = (s, p - 1)
                r = r + QPoly({tuple(rest): v * p}) * ds
        return r

    def to_z3(a, env, side=None):
        """env: name -> z3 term (callable).  Atoms are expanded; side (a list) collects their side conditions."""
        acc = None
        for k, v in a.t.items():
            term = None if v == 1 and k else z3.RealVal(str(v))
            for s, p in k:
                x = atom_z3(s, env, side)
                for _ in range(p):
                    term = x if term is None else term * x
            acc = term if acc is None else acc + term
        return z3.RealVal(0) if acc is None else acc

    def evalq(a, vals):
        """exact evaluation; vals: name -> Fraction.  Raises ZeroDivisionError / ValueError for undefined atoms."""
        r = Fraction(0)
        for k, v in a.t.items():
            for s, p in k:
                v = v * atom_val(s, vals) ** p
            r += v
        return r


def _simplify_atoms(t):
    """sqrt(b)^2 -> b ; inv(x)*x -> 1 for plain symbols x (keeps oracle terms small, purely algebraic identities)."""
    need = False
    for k in t:
        for s, p in k:
            if s in ATOMS and (ATOMS[s][0] == "sqrt" and p >= 2 or ATOMS[s][0] == "inv"):
                need = True
                break
        if need:
            break
    if not need:
        return t
    out = QPoly()
    changed = False
    for k, v in t.items():
        d = dict(k)
        extra = None
        for s, p in k:
            if s not in ATOMS:
                continue
            kind, body = ATOMS[s]
            if kind == "fn":
                continue
            if kind == "sqrt" and p >= 2:
                d[s] = p % 2
                extra = (extra if extra is not None else QPoly.const(1)) * body ** (p // 2)
                changed = True
            elif kind == "inv" and len(body.t) == 1:
                (bk, bv), = body.t.items()
                if len(bk) == 1 and bv == 1 and bk[0][1] == 1 and d.get(bk[0][0], 0) > 0:
                    x = bk[0][0]
                    m = min(d[x], d[s])
                    d[x] -= m
                    d[s] -= m
                    changed = True
        kk = tuple(sorted((s, p) for s, p in d.items() if p > 0))
        term = QPoly({kk: v})
        if extra is not None:
            term = _rawmul(term, extra)
        out = out + term
    return out.t if changed else t


def _rawmul(a, b):
    t = {}
    for k1, v1 in a.t.items():
        for k2, v2 in b.t.items():
            d = dict(k1)
            for s, p in k2:
                d[s] = d.get(s, 0) + p
            k = tuple(sorted(d.items()))
            t[k] = t.get(k, 0) + v1 * v2
    return QPoly(_simplify_atoms(t))


def inv(b):
    b = QPoly._c(b)
    if b.is_const():
        return QPoly.const(Fraction(1) / b.cval())
    # normalise sign/scale so that inv(2*p) and inv(p) share the atom
    lead_k = min(b.t)
    c = b.t[lead_k]
    nb = b * (Fraction(1) / c)
    if len(nb.t) == 1:
        (k, _), = nb.t.items()
        # product of symbol powers: invert each symbol separately
        r = QPoly.const(Fraction(1) / c)
        for s, p in k:
            if s in ATOMS and ATOMS[s][0] == "inv":
                r = r * ATOMS[s][1] ** p
            else:
                name = f"inv({s})"
                ATOMS.setdefault(name, ("inv", QPoly.var(s)))
                r = r * QPoly.var(name) ** p
        return r
    name = f"inv({nb!r})"
    ATOMS.setdefault(name, ("inv", nb))
    return QPoly.var(name) * (Fraction(1) / c)


def sqrt(b):
    b = QPoly._c(b)
    if b.is_const():
        c = b.cval()
        from math import isqrt
        if c >= 0:
            n, d = isqrt(c.numerator), isqrt(c.denominator)
            if n * n == c.numerator and d * d == c.denominator:
                return QPoly.const(Fraction(n, d))
    name = f"sqrt({b!r})"
    ATOMS.setdefault(name, ("sqrt", b))
    return QPoly.var(name)


def fn_atom(fname, c):
    """the real number sin(c) / cos(c) / exp(c) for a rational constant c, as a symbol"""
    c = Fraction(c)
    name = f"{fname}({c})"
    ATOMS.setdefault(name, ("fn", (fname, c)))
    return QPoly.var(name)


def atom_z3(s, env, side=None):
    if s in ATOMS and ATOMS[s][0] == "fn":
        import sympy as sp
        from .s2z import Tr
        fname, c = ATOMS[s][1]
        f = {"sin": sp.sin, "cos": sp.cos, "exp": sp.exp}[fname]
        t = Tr(sym=env, uf=True)
        re, im = t.tr(f(sp.Rational(c.numerator, c.denominator)))
        if side is not None:
            for cns in t.constraints():
                side.append(("fn", s, cns))
        return re
    if s in ATOMS:
        kind, body = ATOMS[s]
        bz = body.to_z3(env, side)
        if kind == "inv":
            if side is not None:
                side.append(("nonzero", s, bz != 0))
            return 1 / bz
        v = env(s)
        if side is not None:
            side.append(("sqrt", s, z3.And(v >= 0, v * v == bz)))
        return v
    return env(s)


def atom_val(s, vals):
    if s in vals:
        return Fraction(vals[s])
    if s in ATOMS and ATOMS[s][0] == "fn":
        import mpmath
        fname, c = ATOMS[s][1]
        mpmath.mp.dps = 50
        v = {"sin": mpmath.sin, "cos": mpmath.cos, "exp": mpmath.exp}[fname](mpmath.mpf(c.numerator) / c.denominator)
        return Fraction(int(v * 10 ** 45), 10 ** 45)   # 45-digit approximation (replays with fn atoms compare with a tolerance)
    if s in ATOMS:
        kind, body = ATOMS[s]
        b = body.evalq(vals)
        if kind == "inv":
            return Fraction(1) / b
        from math import isqrt
        if b < 0:
            raise ValueError("sqrt of negative")
        n, d = isqrt(b.numerator), isqrt(b.denominator)
        if n * n != b.numerator or d * d != b.denominator:
            raise ValueError("irrational sqrt in exact replay")
        return Fraction(n, d)
    raise KeyError(s)
