"""sympy / symengine terms -> z3 (QF_NRA, optionally with uninterpreted exp/sin/cos).

Complex numbers are pairs (re, im) with im None meaning 0.  Algebraic numbers (roots of rationals, CRootOf) are
fresh reals constrained by their defining polynomial and an isolating sign/interval (side constraints).  Every
division contributes its denominator to `denoms` (the caller assumes them non-zero: "generic parameters").
`n`-dependent powers b**n are handled by a pluggable `pow_n` hook (used for the induction queries).
"""
import hashlib
import sympy as sp
import z3
from fractions import Fraction


def _h(key):
    return hashlib.sha1(repr(key).encode()).hexdigest()[:10]


class Untranslatable(Exception):
    pass


class Tr:
    def __init__(self, sym=None, pow_n=None, uf=False, unit=None):
        self.unit = unit or {}   # symbol name -> (cos, sin) z3 pair standing for e^{i*symbol}: e^{i*m*symbol} = (c + i s)^m
        self._sym = sym
        self.syms = {}
        self.side = []      # z3 constraints defining algebraic numbers
        self.alg = {}
        self.denoms = []    # z3 terms assumed != 0
        self.denoms_src = []
        self.pow_n = pow_n
        self.uf = uf
        self.ufs = {}

    def sym(self, name):
        if self._sym is not None:
            return self._sym(name)
        if name not in self.syms:
            self.syms[name] = z3.Real(name)
        return self.syms[name]

    @staticmethod
    def q(r):
        r = sp.Rational(r)
        return z3.RealVal(f"{r.p}/{r.q}") if r.q != 1 else z3.RealVal(int(r.p))

    def real(self, e):
        re, im = self.tr(e)
        if im is not None:
            return re, im
        return re, None

    def tr(self, e):
        e = sp.sympify(e)
        if e.is_Rational:
            return (self.q(e), None)
        if e.is_Float:
            return (self.q(sp.Rational(str(e))), None)
        if e is sp.I:
            return (z3.RealVal(0), z3.RealVal(1))
        if e.is_Symbol:
            if e.name.startswith("_prob"):
                raise Untranslatable("constant of a Bernoulli abstraction (_prob = P(condition)) is not a free parameter")
            return (self.sym(e.name), None)
        if e.is_Add:
            re, im = None, None
            for a in e.args:
                r, i = self.tr(a)
                re = r if re is None else re + r
                if i is not None:
                    im = i if im is None else im + i
            return (re, im)
        if e.is_Mul:
            acc = None
            for a in e.args:
                t = self.tr(a)
                acc = t if acc is None else self.mul(acc, t)
            return acc
        if e.is_Pow:
            return self.pow(e)
        if isinstance(e, sp.exp):
            return self.exp(e.args[0])
        if isinstance(e, (sp.sin, sp.cos)) and self.uf:
            # sin(a) / cos(a) = Im / Re of e^{ia}; e^{ia} honours integer multiples (see exp)
            u = self.exp(sp.I * sp.expand(e.args[0]))
            if isinstance(e, sp.cos):
                return (u[0], None)
            return (u[1] if u[1] is not None else z3.RealVal(0), None)
        if isinstance(e, sp.CRootOf):
            return self.crootof(e)
        if isinstance(e, sp.re):
            return (self.tr(e.args[0])[0], None)
        if isinstance(e, sp.im):
            i = self.tr(e.args[0])[1]
            return (i if i is not None else z3.RealVal(0), None)
        if isinstance(e, sp.conjugate):
            r, i = self.tr(e.args[0])
            return (r, None if i is None else -i)
        if e is sp.E:
            return self.exp(sp.Integer(1))
        if isinstance(e, (sp.sinh, sp.cosh, sp.tanh)) and self.uf:
            return self.tr(e.rewrite(sp.exp))
        raise Untranslatable(f"unsupported {e} ({type(e).__name__})")

    def uf_app(self, name, arg):
        arg = z3.simplify(arg)
        if z3.is_rational_value(arg) or z3.is_int_value(arg):
            # a concrete argument: one fresh real per (function, argument) -- no uninterpreted function needed
            key = ("const", name, str(arg))
            if key not in self.alg:
                self.alg[key] = z3.Real(f"{name}_at_{str(arg).replace('/', '_').replace('-', 'm')}")
            return self.alg[key]
        if name not in self.ufs:
            self.ufs[name] = z3.Function(name, z3.RealSort(), z3.RealSort())
        return self.ufs[name](arg)

    def exp(self, arg):
        """exp(a + i b): every additive term m*X with integer m becomes the m-th power of exp_uf(X) (> 0), resp. of the
        unit-circle point (cos_uf(X), sin_uf(X)) -- so e^{2x} = (e^x)^2 and e^{i2t} = (e^{it})^2 hold by construction."""
        if not self.uf:
            raise Untranslatable(f"exp({arg})")
        arg = sp.expand(arg)
        re_part, im_part = arg.as_real_imag() if not arg.free_symbols else self._split_ri(arg)
        out = (z3.RealVal(1), None)
        for term in sp.Add.make_args(sp.expand(re_part)):
            if term == 0:
                continue
            m, X = self._int_multiple(term)
            a, _ = self.tr(X)
            e = self.uf_app("exp", a)
            self.side.append(e > 0)
            base = (e, None) if m > 0 else (1 / e, None)
            out = self.mul(out, self.ipow(base, abs(m)))
        for term in sp.Add.make_args(sp.expand(im_part)):
            if term == 0:
                continue
            m, X = self._int_multiple(term)
            u = None
            if X.is_Symbol and X.name in self.unit:
                u = self.unit[X.name]
            else:
                b, _ = self.tr(X)
                c, s_ = self.uf_app("cos", b), self.uf_app("sin", b)
                self.side.append(c * c + s_ * s_ == 1)
                u = (c, s_)
            if m < 0:
                u = (u[0], -u[1])
            out = self.mul(out, self.ipow(u, abs(m)))
        return out

    @staticmethod
    def _int_multiple(term):
        """term = m * X with the largest integer |m| >= 1 such that X keeps a canonical (positive leading) form"""
        c, X = term.as_coeff_Mul()
        if c.is_Integer and X != 1:
            return int(c), X
        if c.is_Integer and X == 1:
            return int(c), sp.Integer(1)
        if c.is_Rational:
            if X == 1:
                # p/q -> p * (1/q)
                return int(c.p), sp.Rational(1, c.q)
            return int(c.p), X / c.q
        return 1, term

    @staticmethod
    def _split_ri(arg):
        # symbols are real-valued in every query of this harness
        re_part, im_part = sp.Integer(0), sp.Integer(0)
        for t in sp.Add.make_args(arg):
            c = t.coeff(sp.I)
            if c != 0 and sp.simplify(t - c * sp.I) == 0:
                im_part += c
            elif t.has(sp.I):
                raise Untranslatable(f"cannot split {arg}")
            else:
                re_part += t
        return re_part, im_part

    def pow(self, e):
        b, x = e.args
        if x.is_Integer:
            n = int(x)
            bb = self.tr(b)
            if n < 0:
                self.denoms_src.append(b)
                bb = self.inv(bb)
                n = -n
            return self.ipow(bb, n)
        if x.is_Rational and b.is_Rational:
            if b > 0:
                return (self.root(b, x), None)
            # negative base: (-|b|)^(p/q) principal value, only q == 2 supported
            if x.q == 2:
                r = self.root(-b, sp.Rational(1, 2))
                acc = (z3.RealVal(0), r)  # i*sqrt(|b|)
                p = int(x.p)
                if p < 0:
                    acc = self.inv(acc)
                    p = -p
                return self.ipow(acc, p)
            raise Untranslatable(f"pow {e}")
        if x.is_Rational and x.q == 2 and not x.has(sp.Symbol("n")):
            # sqrt of a (positive-assumed) term
            bb, bi = self.tr(b)
            if bi is not None:
                raise Untranslatable(f"sqrt of complex {e}")
            key = ("sqrt", sp.srepr(b))
            if key not in self.alg:
                v = z3.Real(f"alg_{_h(key)}")
                self.side += [v >= 0, v * v == bb]
                self.alg[key] = v
            acc = (self.alg[key], None)
            p = int(x.p)
            if p < 0:
                self.denoms_src.append(b)
                acc = self.inv(acc)
                p = -p
            return self.ipow(acc, p)
        if self.pow_n is not None:
            r = self.pow_n(self, b, x)
            if r is not None:
                return r
        if b is sp.E:
            return self.exp(x)
        raise Untranslatable(f"pow {e}")

    def root(self, b, x):
        """b positive rational, x rational: the positive real b**x"""
        key = ("root", b, x)
        if key not in self.alg:
            p, qd = int(x.p), int(x.q)
            v = z3.Real(f"alg_{_h(key)}")
            lhs = v
            for _ in range(qd - 1):
                lhs = lhs * v
            base = self.q(b if p > 0 else 1 / b)
            rhs = z3.RealVal(1)
            for _ in range(abs(p)):
                rhs = rhs * base
            self.side += [v > 0, lhs == rhs]
            self.alg[key] = v
        return self.alg[key]

    def crootof(self, e):
        key = ("croot", sp.srepr(e))
        if key in self.alg:
            return self.alg[key]
        poly = e.poly if hasattr(e, "poly") else sp.Poly(e.expr, e.expr.free_symbols.pop())
        coeffs = [sp.Rational(c) for c in poly.all_coeffs()]
        if e.is_real:
            iv = e._get_interval()
            lo, hi = sp.Rational(iv.a), sp.Rational(iv.b)
            v = z3.Real(f"alg_{_h(key)}")
            val = (z3.RealVal(0), None)
            for c in coeffs:
                val = (val[0] * v + self.q(c), None)
            self.side += [val[0] == 0, v >= self.q(lo), v <= self.q(hi)]
            # make the interval isolating: refine until no other real root lies inside
            res = (v, None)
        else:
            iv = e._get_interval()
            ax, bx, ay, by = [sp.Rational(t) for t in (iv.ax, iv.bx, iv.ay, iv.by)]
            vr, vi = z3.Real(f"alg_{_h(key)}r"), z3.Real(f"alg_{_h(key)}i")
            val = (z3.RealVal(0), None)
            for c in coeffs:
                val = self.mul(val, (vr, vi))
                val = (val[0] + self.q(c), val[1])
            self.side += [val[0] == 0, (val[1] if val[1] is not None else z3.RealVal(0)) == 0,
                          vr >= self.q(ax), vr <= self.q(bx), vi >= self.q(ay), vi <= self.q(by)]
            res = (vr, vi)
        self.alg[key] = res
        return res

    def ipow(self, a, n):
        acc = (z3.RealVal(1), None)
        for _ in range(n):
            acc = self.mul(acc, a)
        return acc

    @staticmethod
    def mul(a, b):
        (ar, ai), (br, bi) = a, b
        if ai is None and bi is None:
            return (ar * br, None)
        if ai is None:
            return (ar * br, ar * bi)
        if bi is None:
            return (ar * br, ai * br)
        return (ar * br - ai * bi, ar * bi + ai * br)

    def inv(self, a):
        ar, ai = a
        if ai is None:
            self.denoms.append(ar)
            return (1 / ar, None)
        d = ar * ar + ai * ai
        self.denoms.append(d)
        return (ar / d, -ai / d)

    def constraints(self):
        return list(self.side) + [d != 0 for d in self.denoms]


N1 = sp.Symbol("n", integer=True)
N2 = sp.Symbol("n")


def at_n(expr, k):
    """closed form at the concrete iteration count k (Piecewise branch selected by substitution)"""
    e = sp.sympify(expr)
    e = e.xreplace({N1: sp.Integer(k), N2: sp.Integer(k)})
    if e.has(sp.Piecewise):
        e = sp.piecewise_fold(e)
        e = e.doit() if not isinstance(e, sp.Piecewise) else e
        if isinstance(e, sp.Piecewise):
            for val, cond in e.args:
                if cond == True or cond is sp.true:
                    e = val
                    break
            else:
                raise Untranslatable(f"undecided Piecewise at n={k}: {e}")
    # 0**0 style leftovers are evaluated by sympy on substitution
    return e
