"""Printer of the harness IR back to .prob text in several spellings (the bounded rewrite system of C19):
whitespace / comments / CRLF, redundant parentheses, decimal vs fraction, explicit vs omitted last probability,
simultaneous assignment vs temporaries, elif chains vs nested else-if."""
from fractions import Fraction
from .qpoly import QPoly, ATOMS
from .lang import Assign, If, Simult, Prog


class Unprintable(Exception):
    pass


def num(c: Fraction, style):
    if c.denominator == 1:
        return str(c.numerator)
    if style.get("decimals"):
        d = c.denominator
        while d % 2 == 0:
            d //= 2
        while d % 5 == 0:
            d //= 5
        if d == 1:
            # finite decimal expansion
            from decimal import Decimal, getcontext
            getcontext().prec = 50
            v = Decimal(c.numerator) / Decimal(c.denominator)
            s = format(v.normalize(), "f")
            return s
    return f"{c.numerator}/{c.denominator}"


def expr(q: QPoly, style):
    if not q.t:
        return "0"
    terms = []
    for k, v in sorted(q.t.items()):
        for s, p in k:
            if s in ATOMS:
                raise Unprintable(f"atom {s}")
        mono = "*".join(s if p == 1 else f"{s}**{p}" for s, p in k)
        if not mono:
            t = num(abs(v), style)
        elif abs(v) == 1:
            t = mono
        else:
            c = num(abs(v), style)
            if "/" in c:
                c = f"({c})" if style.get("parens") else c
            t = f"{c}*{mono}"
        terms.append(("-" if v < 0 else "+", t))
    out = ""
    for i, (sg, t) in enumerate(terms):
        if i == 0:
            out = ("-" if sg == "-" else "") + t
        else:
            out += f" {sg} {t}"
    if style.get("parens") and len(terms) > 1:
        out = f"({out})"
    return out


def cond(c, style, top=True):
    k = c[0]
    if k in ("true", "false"):
        return k
    if k == "atom":
        s = f"{expr(c[1], dict(style, parens=False))} {c[2]} {expr(c[3], dict(style, parens=False))}"
        return f"({s})" if style.get("parens") and not top else s
    if k == "not":
        return f"!({cond(c[1], style)})"
    op = "&&" if k == "and" else "||"
    # the grammar has no precedence between && and ||: always parenthesise nested binary conditions
    a = cond(c[1], style, False)
    b = cond(c[2], style, False)
    if c[1][0] in ("and", "or"):
        a = f"({a})" if not a.startswith("(") else a
    if c[2][0] in ("and", "or"):
        b = f"({b})" if not b.startswith("(") else b
    return f"{a} {op} {b}"


def rhs(a: Assign, style):
    if a.kind == "choice":
        if len(a.payload) == 1:
            return expr(a.payload[0][0], style)
        parts = []
        n = len(a.payload)
        for i, (v, p) in enumerate(a.payload):
            last = i == n - 1
            if last and not style.get("explicit_last"):
                parts.append(expr(v, style))
            else:
                parts.append(f"{expr(v, style)} {{{expr(p, dict(style, parens=False))}}}")
        return " ".join(parts)
    if a.kind == "dist":
        fam, params = a.payload
        return f"{fam}({', '.join(expr(p, dict(style, parens=False)) for p in params)})"
    return f"{a.payload[0]}({a.payload[1]})"


def stmts(ss, style, ind, out, counter):
    pad = ("\t" if style.get("tabs") else "    ") * ind
    for s in ss:
        if style.get("noise") and counter[0] % 3 == 0:
            out.append(pad + "# a comment")
            out.append("")
        counter[0] += 1
        if isinstance(s, If):
            if style.get("nested_elif") and len(s.conds) > 1:
                # if c1: A elif c2: B ... else: E  ==>  if c1: A else: if c2: B ... end end
                out.append(f"{pad}if {cond(s.conds[0], style)}:")
                stmts(s.branches[0], style, ind + 1, out, counter)
                out.append(f"{pad}else:")
                rest = If(s.conds[1:], s.branches[1:], s.else_branch)
                stmts([rest], style, ind + 1, out, counter)
                out.append(f"{pad}end")
                continue
            for i, (c, b) in enumerate(zip(s.conds, s.branches)):
                out.append(f"{pad}{'if' if i == 0 else 'elif'} {cond(c, style)}:" + ("   " if style.get("noise") else ""))
                stmts(b, style, ind + 1, out, counter)
            if s.else_branch:
                out.append(f"{pad}else:")
                stmts(s.else_branch, style, ind + 1, out, counter)
            out.append(f"{pad}end")
        elif isinstance(s, Simult):
            if style.get("temps"):
                names = [f"tmp{counter[0]}x{i}" for i in range(len(s.assigns))]
                for nm, a in zip(names, s.assigns):
                    out.append(f"{pad}{nm} = {rhs(a, style)}")
                for nm, a in zip(names, s.assigns):
                    out.append(f"{pad}{a.var} = {nm}")
            else:
                out.append(f"{pad}{', '.join(a.var for a in s.assigns)} = {', '.join(rhs(a, style) for a in s.assigns)}")
        else:
            if s.cond != ("true",):
                raise Unprintable("guarded assignment has no source syntax")
            sp_ = "  =   " if style.get("noise") else " = "
            out.append(f"{pad}{s.var}{sp_}{rhs(s, style)}")


def to_text(prog: Prog, **style):
    out = []
    counter = [1]
    if prog.types:
        out.append("types")
        for v, vals in prog.types.items():
            out.append("    " + f"{v} : Finite({', '.join(num(x, {}) for x in vals)})")
        out.append("end")
    stmts(prog.initial, style, 0, out, counter)
    out.append(f"while {cond(prog.guard, style)}:")
    stmts(prog.body, style, 1, out, counter)
    out.append("end")
    nl = "\r\n" if style.get("crlf") else "\n"
    text = nl.join(out) + nl
    if style.get("noise"):
        text = nl + "# leading comment" + nl + nl + text + nl + nl
    return text
