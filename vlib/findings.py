"""Run bookkeeping shared by all checks: tiers/seed, known findings, VIOLATION / KNOWN-FINDING lines, replay files,
evidence files, exit codes (0 held / 1 violation / 2 harness error)."""
import argparse
import hashlib
import json
import os
import sys
import time
from . import smt

ROOT = os.path.dirname(os.path.dirname(os.path.abspath(__file__)))
KF_PATH = os.path.join(ROOT, "known_findings.json")


def load_known():
    try:
        with open(KF_PATH) as fh:
            return json.load(fh)
    except FileNotFoundError:
        return []


class Run:
    def __init__(self, pid, level, description=""):
        ap = argparse.ArgumentParser(description=description)
        ap.add_argument("--tier", default=os.environ.get("VERIF_TIER", "quick"), choices=["quick", "thorough"])
        ap.add_argument("--replay", default=None)
        ap.add_argument("--only", default=None, help="development: restrict to items whose id contains this")
        ap.add_argument("--no-evidence", action="store_true")
        ap.add_argument("--dump", action="store_true", help="development: print inconclusive items and refusals")
        self.args = ap.parse_args()
        self.pid = pid
        self.level = level
        self.tier = self.args.tier
        self.quick = self.tier == "quick"
        try:
            self.seed = int(os.environ.get("VERIF_SEED", "0"))
        except ValueError:
            self.seed = 0
        self.t0 = time.time()
        self.stats = smt.new_stats()
        self.known = [k for k in load_known() if k.get("property") == pid]
        self.violations = []
        self.known_hit = []
        self.harness_errors = []
        self.inconclusive = []
        self.refusals = []
        self.notes = []
        self.coverage = {}
        self.assumptions = []
        self.functions = []
        self.bounds = {}
        self.samples = []
        self._seen = set()

    # ---- results
    def add_stats(self, st):
        if st:
            smt.add_stats(self.stats, st)

    def sample(self, s):
        if len(self.samples) < 8:
            self.samples.append(s)

    def violation(self, key, what, replay):
        """a reproduced (replayed) discrepancy.  key names the specific failing input."""
        if key in self._seen:
            return
        self._seen.add(key)
        for k in self.known:
            if k.get("kind") == "known" and k.get("key") == key:
                print(f"KNOWN-FINDING: property={self.pid} {k.get('what', what)} [{key}]")
                self.known_hit.append(key)
                self._write_replay(key, what, replay)
                return
        path = self._write_replay(key, what, replay)
        print(f"VIOLATION property={self.pid} replay={path}")
        print(f"  {what} [{key}]")
        self.violations.append({"key": key, "what": what, "replay": path})

    def _write_replay(self, key, what, replay):
        d = os.path.join(ROOT, "replays", self.pid)
        os.makedirs(d, exist_ok=True)
        h = hashlib.sha1(key.encode()).hexdigest()[:12]
        path = os.path.join(d, f"{h}.json")
        obj = {"property": self.pid, "key": key, "what": what}
        obj.update(replay or {})
        with open(path, "w") as fh:
            json.dump(obj, fh, indent=1, default=str)
        return path

    def harness_error(self, what):
        print(f"HARNESS-ERROR property={self.pid} {what}", file=sys.stderr)
        self.harness_errors.append(what)

    def job_failed(self, name, status, val):
        """a job that timed out is inconclusive; a job that crashed is a harness error (never silently lost coverage)"""
        if status == "crash":
            self.harness_error(f"{name}: job crashed: {str(val)[:400]}")
        else:
            self.inconc(f"{name}: job {status}")

    def inconc(self, what):
        if len(self.inconclusive) < 200:
            self.inconclusive.append(what)
        else:
            self.inconclusive[-1] = "... (more)"

    def refusal(self, what):
        if len(self.refusals) < 200:
            self.refusals.append(what)

    # ---- end of run
    def finish(self, **cov):
        wall = time.time() - self.t0
        coverage = dict(self.coverage)
        coverage.update(cov)
        coverage.setdefault("samples", self.samples or ["(no sample recorded)"])
        coverage["functions_encoded"] = self.functions
        coverage["bounds"] = self.bounds
        coverage["queries"] = {k: self.stats[k] for k in ("queries", "unsat", "sat", "unknown")}
        coverage["solver_time_s"] = round(self.stats["solver_s"], 3)
        coverage["second_solver"] = self.stats["xcheck"]
        coverage["sample_queries_smt2"] = self.stats["samples"][:3]
        coverage["inconclusive"] = self.inconclusive
        coverage["refusals_recorded"] = self.refusals[:60]
        coverage["refusals_count"] = len(self.refusals)
        coverage["known_findings_hit"] = self.known_hit
        coverage["harness_errors"] = self.harness_errors
        coverage["notes"] = self.notes
        if self.stats["xcheck"]["disagree"]:
            self.harness_error(f"second solver disagreed on {self.stats['xcheck']['disagree']} queries")
        ev = {"property_id": self.pid, "tier": self.tier, "seed": self.seed, "level": self.level,
              "coverage": coverage, "assumptions": self.assumptions, "wall_s": round(wall, 2),
              "violations": len(self.violations)}
        if not self.args.no_evidence and not self.args.replay and not self.args.only:
            os.makedirs(os.path.join(ROOT, "evidence"), exist_ok=True)
            with open(os.path.join(ROOT, "evidence", f"{self.pid}.json"), "w") as fh:
                json.dump(ev, fh, indent=1, default=str)
        if self.args.dump:
            for x in self.inconclusive:
                print("  INCONCLUSIVE", x)
            for x in self.refusals:
                print("  REFUSAL", x)
            for x in self.notes:
                print("  NOTE", x)
        q = coverage["queries"]
        print(f"[{self.pid}] tier={self.tier} seed={self.seed} queries={q['queries']} unsat={q['unsat']} sat={q['sat']} "
              f"unknown={q['unknown']} inconclusive={len(self.inconclusive)} refusals={len(self.refusals)} "
              f"known={len(self.known_hit)} violations={len(self.violations)} harness_errors={len(self.harness_errors)} "
              f"wall={wall:.1f}s")
        if self.violations:
            sys.exit(1)
        if self.harness_errors:
            sys.exit(2)
        sys.exit(0)
