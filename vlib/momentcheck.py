"""Shared core of the program-level differential checks (C01, C09, C10, C17, C19, ...):
closed form (sympy term produced by the real code in this run) at n = k  versus  the k-step reference semantics,
decided by z3 for all values of all symbols; sat models are replayed exactly before they count."""
from fractions import Fraction
import sympy as sp
import z3
from . import smt
from .s2z import Tr, at_n, Untranslatable
from .qpoly import QPoly, ATOMS
from .sem import Interp, kstep, Unsupported
from .lang import arith, Prog


def corpus_goals(text):
    for ln in text.splitlines():
        if ln.startswith("#goals:"):
            return [g.strip() for g in ln[7:].split(";") if g.strip()]
    return []


def oracle_sequences(prog: Prog, goals, N, max_paths=20000, fns=None):
    """-> (I, {goal: [groups_0..groups_N]})   groups = [(pc, QPoly)]"""
    seqs = {g: [] for g in goals}
    gq = {g: (arith(g) if isinstance(g, str) else g) for g in goals}
    I = None
    for k, I, paths in kstep(prog, N, max_paths=max_paths):
        for g in goals:
            seqs[g].append(I.expect_monomial(paths, gq[g]) if fns is None else fns[g](I, paths))
    return I, seqs


def z3_of_sympy(expr, I, uf=True):
    t = Tr(sym=I.zv, uf=uf)
    re, im = t.tr(expr)
    return t, re, im


def compare(expr_k, I, groups, stats, timeout_ms=60000, tag="", extra=(), xcheck=False):
    """decide  exists symbols: assumptions and denominators != 0 and expr_k != oracle.
    -> (verdict, model, info)"""
    t, re, im = z3_of_sympy(expr_k, I)
    side = []
    oz = I.to_z3(groups, side)
    cons = list(I.solver.assertions()) + t.constraints() + [s[2] for s in side] + list(extra)
    neq = re != oz
    if im is not None:
        neq = z3.Or(neq, im != 0)
    verdict, model = smt.decide(cons + [neq], stats, timeout_ms, tag=tag, xcheck=xcheck)
    info = {"denominators": [str(d) for d in t.denoms_src][:8]}
    return verdict, model, info


def twin(I, expr_k, stats, timeout_ms=20000):
    """reachability twin: the assumptions alone must be satisfiable"""
    t, re, im = z3_of_sympy(expr_k, I)
    cons = list(I.solver.assertions()) + t.constraints()
    v, _ = smt.decide(cons, None, timeout_ms)
    return v


def sym_values(model, names):
    vals = {}
    for n in names:
        if n.startswith("@phi"):
            continue  # the bounded constant 1/sqrt(2 pi) of the reference (half-normal moments), not a program symbol
        vals[n] = Fraction(model.get(n, 0)) if not isinstance(model.get(n, 0), bool) else Fraction(0)
    return vals


def eval_sympy_exact(expr, vals):
    """exact value of a sympy term at rational symbol values -> Fraction, or a sympy number when irrational"""
    sub = {}
    for s in expr.free_symbols:
        if s.name in vals:
            sub[s] = sp.Rational(vals[s.name].numerator, vals[s.name].denominator)
        else:
            sub[s] = sp.Integer(0)
    v = expr.xreplace(sub)
    v = sp.re(sp.expand(v)) if v.has(sp.I) else sp.expand(v)
    if v.is_Rational:
        return Fraction(int(v.p), int(v.q))
    v2 = sp.nsimplify(sp.simplify(v))
    if v2.is_Rational:
        return Fraction(int(v2.p), int(v2.q))
    return v2


def values_differ(a, b):
    if isinstance(a, Fraction) and isinstance(b, Fraction):
        return a != b
    d = sp.simplify(sp.sympify(a if not isinstance(a, Fraction) else sp.Rational(a.numerator, a.denominator)) -
                    sp.sympify(b if not isinstance(b, Fraction) else sp.Rational(b.numerator, b.denominator)))
    if d == 0:
        return False
    try:
        return abs(complex(sp.N(d, 50))) > 1e-30
    except Exception:
        return True


def oracle_value(prog: Prog, goal, k, vals, fn=None, max_paths=200000):
    """exact re-execution of the reference semantics at concrete symbol values (no solver decides anything)"""
    gq = arith(goal) if isinstance(goal, str) else goal
    last = None
    for kk, I, paths in kstep(prog, k, param_vals=vals, max_paths=max_paths):
        last = (I, paths)
    I, paths = last
    groups = I.expect_monomial(paths, gq) if fn is None else fn(I, paths)
    tot = Fraction(0)
    for pc, q in groups:
        if pc:
            raise Unsupported("symbolic branch left in concrete replay")
        tot += q.evalq(vals)
    return tot


def replay(prog: Prog, goal, k, model, expr_k, fn=None):
    """-> dict(reproduced=bool, polar=..., oracle=..., values=...) ; raises on harness problems"""
    names = set()
    for s in expr_k.free_symbols:
        names.add(s.name)
    for a in prog.all_assigns(prog.initial + prog.body):
        pass
    names |= {n for n in model if not n.startswith("alg")}
    vals = sym_values(model, names)
    ov = oracle_value(prog, goal, k, vals, fn)
    pv = eval_sympy_exact(expr_k, vals)
    return {"reproduced": values_differ(pv, ov), "polar": str(pv), "oracle": str(ov),
            "values": {k_: str(v) for k_, v in vals.items()}, "n": k}
