"""The independent reference semantics: a forking symbolic interpreter of the loop language over QPoly values.

Statements in order; if/elif/else takes the first branch whose condition holds; a discrete random site forks into
its outcomes (path weight multiplied by the outcome's probability polynomial); a continuous draw binds a fresh
symbol whose powers are later replaced by the reference moments (innermost draw first); a simultaneous assignment
evaluates all right-hand sides in the old state; once the guard is false the state is copied unchanged.
A condition that the path condition does not decide forks, each side kept only if z3 finds it feasible.
No sympy/symengine in the arithmetic path.
"""
from fractions import Fraction
import z3
from .qpoly import QPoly, ATOMS
from .lang import Assign, If, Simult, Prog, cond_symbols
from . import distref
from .distref import Unsupported


class Path:
    __slots__ = ("env", "pc", "pck", "w", "draws", "stopped", "tag", "dc")

    def __init__(self, env, pc=None, pck=None, w=None, draws=None, stopped=False, tag=(), dc=None):
        self.env = env
        self.pc = pc or []
        self.pck = pck or []
        self.w = w if w is not None else QPoly.const(1)
        self.draws = draws or {}   # name -> (family, [param QPoly])   insertion-ordered
        self.stopped = stopped     # guard found false at some earlier guard evaluation
        self.tag = tag
        self.dc = dc or {}         # draw name -> (lo, hi): the draw is restricted to the open interval (None = unbounded)

    def fork(self):
        return Path(dict(self.env), list(self.pc), list(self.pck), self.w, dict(self.draws), self.stopped, self.tag, dict(self.dc))

    def key(self):
        return (tuple(sorted((k, v.key()) for k, v in self.env.items())), tuple(self.pck),
                tuple((n, f, tuple(p.key() for p in ps)) for n, (f, ps) in self.draws.items()), self.stopped, self.tag,
                tuple(sorted((n, str(lo), str(hi)) for n, (lo, hi) in self.dc.items())))


def _is_tree(r):
    return isinstance(r, tuple)


def _draw_affine(d, draws):
    """d = a*n + b for exactly one draw symbol n and rational constants a != 0, b  ->  (n, a, b)"""
    n, a, b = None, None, Fraction(0)
    for k, v in d.t.items():
        if k == ():
            b = v
        elif len(k) == 1 and k[0][1] == 1 and k[0][0] in draws and (n is None or n == k[0][0]):
            n, a = k[0][0], v
        else:
            raise Unsupported("condition depends on a continuous draw (not affine in a single draw with constant coefficients)")
    if n is None or a == 0:
        raise Unsupported("condition depends on a continuous draw")
    return n, a, b


class Interp:
    def __init__(self, prog: Prog, assume=(), param_vals=None, unset_suffix="0", max_paths=20000, timeout_ms=10000):
        self.prog = prog
        self.vars = set(prog.assigned_vars())
        self.param_vals = {k: QPoly.const(v) for k, v in (param_vals or {}).items()}
        self.z = {}
        self.side = []          # side conditions of atoms seen in conditions
        self.solver = z3.Solver()
        self.solver.set("timeout", timeout_ms)
        for a in assume:
            self.solver.add(a)
        self.nsolver = 0
        ph = self.zv(distref.PHI0)    # 1/sqrt(2 pi), only met in half-normal moments
        self.solver.add(ph > z3.RealVal("39894/100000"), ph < z3.RealVal("39895/100000"))
        self.ndraw = 0
        self.unset_suffix = unset_suffix
        self.max_paths = max_paths
        self.unknown_forks = 0

    # ---- helpers
    def zv(self, name):
        if name not in self.z:
            self.z[name] = z3.Real(name)
        return self.z[name]

    def assume(self, *cs):
        for c in cs:
            self.solver.add(c)

    def val(self, env, q):
        """value of expression q in state env (variables -> their values, unset variables -> v0, parameters stay)"""
        syms = q.symbols_deep()
        m = {}
        for s in syms:
            if s in env:
                m[s] = env[s]
            elif s in self.vars:
                m[s] = QPoly.var(s + self.unset_suffix)
                if (s + self.unset_suffix) in self.param_vals:
                    m[s] = self.param_vals[s + self.unset_suffix]
            elif s in self.param_vals:
                m[s] = self.param_vals[s]
        return q.subs_deep(m) if m else q

    def lookup(self, env, v):
        return self.val(env, QPoly.var(v))

    def cond(self, c, env, path):
        """-> True / False / z3 Bool"""
        k = c[0]
        if k == "true":
            return True
        if k == "false":
            return False
        if k == "not":
            r = self.cond(c[1], env, path)
            if _is_tree(r):
                return ("dnot", r)
            return (not r) if isinstance(r, bool) else z3.Not(r)
        if k in ("and", "or"):
            a = self.cond(c[1], env, path)
            b = self.cond(c[2], env, path)
            if _is_tree(a) or _is_tree(b):
                if k == "and" and (a is False or b is False):
                    return False
                if k == "or" and (a is True or b is True):
                    return True
                return ("dand" if k == "and" else "dor", a, b)
            if k == "and":
                if a is False or b is False:
                    return False
                if a is True:
                    return b
                if b is True:
                    return a
                return z3.And(a, b)
            if a is True or b is True:
                return True
            if a is False:
                return b
            if b is False:
                return a
            return z3.Or(a, b)
        d = self.val(env, c[1]) - self.val(env, c[3])
        cop = c[2]
        if d.is_const():
            v = d.cval()
            return {"==": v == 0, "/=": v != 0, "<": v < 0, "<=": v <= 0, ">": v > 0, ">=": v >= 0}[cop]
        if d.symbols_deep() & set(path.draws):
            # a threshold on one continuous draw: decided by splitting the draw's range (see decide)
            n, a, b = _draw_affine(d, path.draws)
            t = -b / a
            if a < 0:
                cop = {"<": ">", "<=": ">=", ">": "<", ">=": "<=", "==": "==", "/=": "/="}[cop]
            return ("draw", n, cop, t)
        side = []
        t = d.to_z3(self.zv, side)
        for s in side:
            self.side.append(s)
            self.solver.add(s[2])
        return {"==": t == 0, "/=": t != 0, "<": t < 0, "<=": t <= 0, ">": t > 0, ">=": t >= 0}[cop]

    def decide(self, path, r):
        """-> list of (bool, path) for the feasible sides"""
        if isinstance(r, bool):
            return [(r, path)]
        if _is_tree(r):
            return self.decide_draws(path, r)
        r = z3.simplify(r)
        if z3.is_true(r):
            return [(True, path)]
        if z3.is_false(r):
            return [(False, path)]
        out = []
        for v in (True, False):
            c = r if v else z3.Not(r)
            self.solver.push()
            self.solver.add(*path.pc)
            self.solver.add(c)
            self.nsolver += 1
            res = self.solver.check()
            self.solver.pop()
            if res == z3.unknown:
                self.unknown_forks += 1
            if res != z3.unsat:
                p2 = path.fork()
                p2.pc.append(c)
                p2.pck.append(c.sexpr())
                out.append((v, p2))
        return out

    def decide_draws(self, path, tree):
        """a condition over thresholds of continuous draws: the range of every draw involved is cut at the thresholds;
        on each cell the draw atoms are constant, what is left is decided as usual"""
        import itertools
        atoms = []

        def collect(t):
            if _is_tree(t):
                if t[0] == "draw":
                    atoms.append(t)
                else:
                    for x in t[1:]:
                        collect(x)
        collect(tree)
        cells = {}
        for n in sorted({a[1] for a in atoms}):
            lo, hi = path.dc.get(n, (None, None))
            cuts = sorted({a[3] for a in atoms if a[1] == n and a[2] not in ("==", "/=")
                           and (lo is None or a[3] > lo) and (hi is None or a[3] < hi)})
            bounds = [lo] + cuts + [hi]
            cells[n] = list(zip(bounds, bounds[1:]))

        def rep(lo, hi):
            if lo is None and hi is None:
                return Fraction(0)
            if lo is None:
                return hi - 1
            if hi is None:
                return lo + 1
            return (lo + hi) / 2

        def ev(t, point):
            if not _is_tree(t):
                return t
            if t[0] == "draw":
                x, th = point[t[1]], t[3]
                return {"==": False, "/=": True, "<": x < th, "<=": x < th, ">": x > th, ">=": x > th}[t[2]]
            if t[0] == "dnot":
                r = ev(t[1], point)
                return (not r) if isinstance(r, bool) else z3.Not(r)
            a, b = ev(t[1], point), ev(t[2], point)
            if t[0] == "dand":
                if a is False or b is False:
                    return False
                if a is True:
                    return b
                if b is True:
                    return a
                return z3.And(a, b)
            if a is True or b is True:
                return True
            if a is False:
                return b
            if b is False:
                return a
            return z3.Or(a, b)
        names = sorted(cells)
        combos = []
        for combo in itertools.product(*[cells[n] for n in names]):
            r = ev(tree, {n: rep(*c) for n, c in zip(names, combo)})
            combos.append([combo, r])
        if len(names) == 1:
            # neighbouring cells with the same (boolean) outcome are one cell
            merged = []
            for combo, r in combos:
                if merged and isinstance(r, bool) and isinstance(merged[-1][1], bool) and merged[-1][1] == r:
                    merged[-1][0] = ((merged[-1][0][0][0], combo[0][1]),)
                else:
                    merged.append([combo, r])
            combos = merged
        out = []
        for combo, r in combos:
            p2 = path.fork() if len(combos) > 1 else path
            for n, c in zip(names, combo):
                if c != (None, None):
                    p2.dc[n] = c
            out += self.decide(p2, r)
        return out

    # ---- execution
    def exec_list(self, paths, stmts):
        for st in stmts:
            new = []
            for p in paths:
                new += self.exec_stmt(p, st)
            paths = new
            if len(paths) > self.max_paths:
                raise Unsupported(f"more than {self.max_paths} paths")
        return paths

    def exec_stmt(self, path, st):
        if isinstance(st, If):
            return self.exec_if(path, st, 0)
        if isinstance(st, Simult):
            old = dict(path.env)
            paths = [path]
            for a in st.assigns:
                new = []
                for p in paths:
                    new += self.exec_assign(p, a, read_env=old)
                paths = new
            return paths
        return self.exec_assign(path, st)

    def exec_if(self, path, st, i):
        if i == len(st.conds):
            return self.exec_list([path], st.else_branch) if st.else_branch else [path]
        out = []
        for v, p2 in self.decide(path, self.cond(st.conds[i], path.env, path)):
            if v:
                out += self.exec_list([p2], st.branches[i])
            else:
                out += self.exec_if(p2, st, i + 1)
        return out

    def exec_assign(self, path, a: Assign, read_env=None):
        out = []
        renv0 = read_env if read_env is not None else path.env
        for v, p2 in self.decide(path, self.cond(a.cond, renv0, path)):
            renv = read_env if read_env is not None else p2.env
            if not v:
                p2.env[a.var] = self.lookup(renv, a.default)
                out.append(p2)
                continue
            if a.kind == "choice":
                if len(a.payload) == 1:
                    val, pr = a.payload[0]
                    pr = self.val(renv, pr)
                    if pr != 1:
                        p2.w = p2.w * pr
                    p2.env[a.var] = self.val(renv, val)
                    out.append(p2)
                else:
                    for val, pr in a.payload:
                        prv = self.val(renv, pr)
                        if prv.is_zero():
                            continue
                        p3 = p2.fork()
                        p3.w = p3.w * prv
                        p3.env[a.var] = self.val(renv, val)
                        out.append(p3)
            elif a.kind == "dist":
                fam, params = a.payload
                params = [self.val(renv, q) for q in params]
                if fam in distref.DISCRETE:
                    for val, pr in distref.discrete_outcomes(fam, params):
                        if pr.is_zero():
                            continue
                        p3 = p2.fork()
                        p3.w = p3.w * pr
                        p3.env[a.var] = val
                        out.append(p3)
                else:
                    self.ndraw += 1
                    nm = f"@d{self.ndraw}"
                    p2.draws[nm] = (fam, params)
                    p2.env[a.var] = QPoly.var(nm)
                    out.append(p2)
            else:
                fname, arg = a.payload
                try:
                    q = self.val(renv, QPoly.const(Fraction(arg))) if not arg[0].isalpha() and arg[0] != "_" else self.lookup(renv, arg)
                except ValueError:
                    q = self.lookup(renv, arg)
                if not q.is_const():
                    raise Unsupported(f"functional assignment {fname} of a non-constant value (continuous draw or symbol)")
                from .qpoly import fn_atom
                p2.env[a.var] = fn_atom(fname.lower(), q.cval())
                out.append(p2)
        return out

    def start(self, env=None):
        return [Path(dict(env or {}))]

    def run_initial(self, paths=None):
        return self.merge(self.exec_list(paths or self.start(), self.prog.initial))

    def iteration(self, paths):
        """one loop iteration: guard check (state frozen when false), then the body"""
        out = []
        for p in paths:
            for v, p2 in self.decide(p, self.cond(self.prog.guard, p.env, p)):
                if v:
                    out += self.exec_list([p2], self.prog.body)
                else:
                    p2.stopped = True
                    out.append(p2)
            if len(out) > self.max_paths:
                raise Unsupported(f"more than {self.max_paths} paths")
        return self.merge(out)

    def merge(self, paths):
        """merge paths with identical state / path condition / pending draws (structural keys, never hash())"""
        merged = {}
        for p in paths:
            self.gc_draws(p)
            k = p.key()
            if k in merged:
                merged[k].w = merged[k].w + p.w
            else:
                merged[k] = p
        return [p for p in merged.values() if not p.w.is_zero()]

    def gc_draws(self, p):
        """draw symbols no longer referenced by the state (nor by a later draw's parameters) integrate to 1"""
        live = set()
        for v in p.env.values():
            live |= v.symbols_deep()
        live |= p.w.symbols_deep()
        for n in reversed(list(p.draws)):
            if n in live:
                for q in p.draws[n][1]:
                    live |= q.symbols_deep()
        # canonical renaming so that equal states merge: rename live draws by order
        keep = [n for n in p.draws if n in live]
        if len(keep) != len(p.draws) or any(n != f"@c{i}" for i, n in enumerate(keep)):
            # a dead draw restricted to a cell leaves the probability of the cell behind
            for n in list(p.draws):
                if n not in live and n in p.dc:
                    lo, hi = p.dc.pop(n)
                    fam, params = p.draws[n]
                    p.w = p.w * distref.trunc_moment(fam, params, 0, lo, hi)
            ren = {n: QPoly.var(f"@c{i}") for i, n in enumerate(keep)}
            p.env = {k: v.subs_deep(ren) for k, v in p.env.items()}
            p.w = p.w.subs_deep(ren)
            p.draws = {f"@c{i}": (p.draws[n][0], [q.subs_deep(ren) for q in p.draws[n][1]]) for i, n in enumerate(keep)}
            p.dc = {f"@c{keep.index(n)}": c for n, c in p.dc.items() if n in keep}

    # ---- expectations
    def integrate(self, q, draws, dc=None):
        """E over the continuous draws, innermost (latest) first, repeated until none is left; a draw restricted to
        a cell (dc) contributes E[x^k 1(cell)]"""
        names = list(draws)
        for n in reversed(names):
            if dc and n in dc:
                if n in (q.symbols_deep() - q.symbols()):
                    raise Unsupported("draw inside a non-polynomial atom")
                fam, params = draws[n]
                lo, hi = dc[n]
                r = QPoly()
                for k, v in q.t.items():
                    e = sum(pw for sy, pw in k if sy == n)
                    outside = tuple((sy, pw) for sy, pw in k if sy != n)
                    r = r + QPoly({outside: v}) * distref.trunc_moment(fam, params, e, lo, hi)
                q = r
                continue
            if n not in q.symbols():
                if n in q.symbols_deep():
                    raise Unsupported("draw inside a non-polynomial atom")
                continue
            fam, params = draws[n]
            q = q.map_monomials({n}, lambda inside, fam=fam, params=params, n=n: distref.moment(fam, params, inside[n]))
        if q.symbols_deep() & set(names):
            raise Unsupported("draw symbol left after integration")
        return q

    def expect(self, paths, f, only=None):
        """f: (path) -> QPoly.  Returns [(pc list, QPoly)] grouped by path condition."""
        groups = {}
        for p in paths:
            if only is not None and not only(p):
                continue
            val = self.integrate(f(p) * p.w, p.draws, p.dc)
            k = tuple(p.pck)
            if k in groups:
                groups[k][1] = groups[k][1] + val
            else:
                groups[k] = [p.pc, val]
        return [(pc, q) for pc, q in groups.values()]

    def expect_monomial(self, paths, monom: QPoly, only=None):
        return self.expect(paths, lambda p: self.val(p.env, monom), only)

    def to_z3(self, groups, side=None):
        side = self.side if side is None else side
        tot = None
        for pc, q in groups:
            t = q.to_z3(self.zv, side)
            if pc:
                t = z3.If(z3.And(*pc) if len(pc) > 1 else pc[0], t, z3.RealVal(0))
            tot = t if tot is None else tot + t
        return z3.RealVal(0) if tot is None else tot


def assumptions_for_program(prog: Prog, I: Interp):
    """§2.2: probabilities in [0,1], explicit ones sum to <= 1, distribution parameters admissible -- for
    sites whose parameters are constant in the program variables (parameters / numbers only)."""
    out = []
    side = []
    for a in prog.all_assigns(prog.initial + prog.body):
        if a.kind == "choice" and len(a.payload) > 1:
            for _, pr in a.payload:
                if not pr.is_const() and not (pr.symbols_deep() & I.vars):
                    t = pr.to_z3(I.zv, side)
                    out += [t >= 0, t <= 1]
        elif a.kind == "dist":
            fam, params = a.payload
            if not any(q.symbols_deep() & I.vars for q in params):
                out += distref.param_assumptions(fam, params, I.zv, side)
    return out + [s[2] for s in side]


def kstep(prog: Prog, N, assume=(), param_vals=None, max_paths=20000):
    """generator over k = 0..N of (k, interp, paths) from the initial block"""
    I = Interp(prog, assume, param_vals, max_paths=max_paths)
    for c in assumptions_for_program(prog, I):
        I.assume(c)
    paths = I.run_initial()
    yield 0, I, paths
    for k in range(1, N + 1):
        paths = I.iteration(paths)
        yield k, I, paths
