"""Exponential polynomials in n: abstraction of b**n for the all-n queries, general branch / first valid n of a
Piecewise closed form."""
import sympy as sp
from .s2z import N1, N2, Untranslatable


def pow_hook_factory(reg):
    """b**(alpha*n+beta) -> abstraction of (b**alpha)**n times b**beta.
    Rational bases are factored into primes (own trial division) and (-1)^n so that multiplicative relations hold by
    construction: p^n is one fresh positive real per prime, (-1)^n a fresh sigma with sigma^2 = 1; fractional alpha = r/q
    uses a fresh positive real for p^(n/q) tied to p^n by its q-th power.  Any other algebraic base gets one fresh symbol
    (pair, if not real) per canonical form -- multiplicative relations among those are lost (a sat is then inconclusive)."""
    import sympy as sp
    import z3

    def prime_sym(tr, p, q):
        key = ("prime", p, q)
        if key not in reg:
            v = z3.Real(f"E_{p}_{q}")
            tr.side.append(v > 0)
            if q != 1:
                base = prime_sym(tr, p, 1)
                pw = v
                for _ in range(q - 1):
                    pw = pw * v
                tr.side.append(pw == base)
            reg[key] = v
        return reg[key]

    def factor(m):
        out, d = {}, 2
        while d * d <= m:
            while m % d == 0:
                out[d] = out.get(d, 0) + 1
                m //= d
            d += 1
        if m > 1:
            out[m] = out.get(m, 0) + 1
        return out

    def hook(tr, b, x):
        x = sp.expand(x)
        n = N1 if x.has(N1) else N2
        if not x.has(n):
            return None
        alpha = x.coeff(n, 1)
        beta = x.coeff(n, 0)
        if not alpha.is_Rational or sp.expand(x - alpha * n - beta) != 0:
            raise Untranslatable(f"exponent {x}")
        b = sp.nsimplify(b)
        b_orig = b
        val = None
        if b.is_Rational and b != 0:
            q = int(alpha.q)
            r = int(alpha.p)
            if b < 0:
                if q != 1:
                    raise Untranslatable(f"negative base with fractional exponent {b}**{x}")
                if "sigma" not in reg:
                    sg = z3.Real("sigma_m1")
                    tr.side.append(sg * sg == 1)
                    reg["sigma"] = sg
                if r % 2:
                    val = (reg["sigma"], None)
                b = -b
            exps = {}
            for pr, e in factor(int(b.p)).items():
                exps[pr] = exps.get(pr, 0) + e * r
            for pr, e in factor(int(b.q)).items():
                exps[pr] = exps.get(pr, 0) - e * r
            for pr, e in exps.items():
                if e == 0:
                    continue
                sv = (prime_sym(tr, pr, q), None)
                if e < 0:
                    sv = (1 / sv[0], None)
                    e = -e
                pw = tr.ipow(sv, e)
                val = pw if val is None else tr.mul(val, pw)
            if val is None:
                val = (z3.RealVal(1), None)
        else:
            if not alpha.is_Integer:
                raise Untranslatable(f"fractional exponent of algebraic base {b}**{x}")
            base = sp.nsimplify(sp.simplify(b ** alpha))
            key = ("alg", sp.srepr(sp.radsimp(base)))
            if key not in reg:
                i = len(reg)
                isreal = bool(base.is_real)
                reg[key] = (z3.Real(f"E{i}r"), None if isreal else z3.Real(f"E{i}i"))
            val = reg[key]
        if beta != 0:
            val = tr.mul(val, tr.tr(b_orig ** beta))
        return val
    return hook



def general_branch(cf):
    """-> (general expression, n0) where n0 is one past the last listed special case"""
    cf = sp.sympify(cf)
    n0 = 0
    if isinstance(cf, sp.Piecewise):
        for ex, cond in cf.args:
            if cond is sp.true or cond == True:  # noqa: E712
                continue
            for lt in cond.atoms(sp.LessThan):
                n0 = max(n0, int(lt.args[1]) + 1)
            for lt in cond.atoms(sp.StrictLessThan):
                n0 = max(n0, int(lt.args[1]))
        return cf.args[-1][0], n0
    if cf.has(sp.Piecewise):
        # nested piecewise (sums of closed forms): take every default branch
        n0s = []

        def unpack(e):
            if isinstance(e, sp.Piecewise):
                g, k = general_branch(e)
                n0s.append(k)
                return unpack(g)
            if not e.args:
                return e
            return e.func(*[unpack(a) for a in e.args])
        g = unpack(cf)
        return g, max(n0s or [0])
    return cf, 0
