#!/usr/bin/env python3
"""Regenerates /verif/MANIFEST.json from the table below (keeps it schema-valid at all times)."""
import json, os, sys
ROOT = os.path.dirname(os.path.dirname(os.path.abspath(__file__)))
ALL = [f"C{i:02d}" for i in range(1, 21)]

CHECKS = {
 "C01": dict(cat="translation_validation",
   text="Bounded solver-based differential check: for each program of a stated family and each goal monomial, the closed form the real pipeline returns is compared at every n <= N with the k-step reference semantics by one z3 query over all values of parameters and initial values; sat models are replayed exactly on the real code before they count.",
   ref="DESIGN.md 3/C01", tech="symbolic-data execution of the real pipeline + z3 (QF_NRA) equivalence queries against an independent reference interpreter",
   note="Trusted: vlib/sem.py semantics, vlib/distref.py reference moments, z3. Assumed: probabilities in [0,1], admissible distribution parameters, non-zero denominators of the reported formula. Bounded: n <= N (4 quick / 6 thorough), program family of vlib/progfamily.py + corpus/ + repo benchmarks; TruncNormal, Sin/Cos/Exp and conditions on continuous draws are outside."),
 "C04": dict(cat="other",
   text="Bounded solver-based checking of the real recurrence solvers: for each linear system of a stated family (all Jordan patterns up to dimension 3/4 over a stated eigenvalue list, conjugated, with and without inhomogeneous part) and a fully symbolic initial vector, closed(k) = (A^k v) is decided by z3 for k <= 2d+4 for both solvers; an induction query with b^n abstracted closes all n >= n0 per component; numeric-root options are checked for the exactness flag and an envelope.",
   ref="DESIGN.md 3/C04", tech="symbolic-data execution of AcyclicSolver/CyclicSolver + z3 QF_NRA queries (bounded k and symbolic-n induction)",
   note="Trusted: exact A^k v by the harness's own QPoly arithmetic, z3. Bounded: dimension <= 3 (quick) / 4 (thorough), eigenvalues from the block list, k <= 2d+4; induction assumes distinct abstracted bases are independent (a sat there is only inconclusive). The numeric-root envelope is evaluated at a concrete vector."),
 "C06": dict(cat="other",
   text="For tuples of exponential-polynomial closed forms the real InvariantIdeal is run; each reported basis element is shown to vanish for ALL n by one z3 identity query in (n, p^n per prime, (-1)^n) for rational bases, and at n0..n0+8 exactly for other algebraic bases.",
   ref="DESIGN.md 3/C06", tech="symbolic-data execution of InvariantIdeal + z3 identity queries under prime-power abstraction",
   note="Trusted: algebraic independence of n and the prime powers; z3. Bounded: tuples of <= 4 closed forms from vlib/invfam.py; non-rational bases only at 9 concrete n."),
 "C07": dict(cat="other",
   text="Completeness of the reported basis up to degree D is one exact LRA query per tuple over ALL rational coefficient vectors: a polynomial vanishing on the sample whose normal form modulo the reported generators is non-zero; witnesses count only after an all-n identity query promotes them.",
   ref="DESIGN.md 3/C07", tech="z3 LRA existence query over coefficient vectors + all-n identity promotion",
   note="Trusted: sympy.groebner as calculator for normal forms inside the harness; z3. Bounded: degree <= 2 (quick) / 3 (thorough), rational bases, <= 4 goals."),
 "C16": dict(cat="other",
   text="For lists of rationals the returned basis is checked by three LIA queries over UNBOUNDED integer vectors (soundness of every integer combination, independence, completeness with one universal block) against the fundamental theorem of arithmetic; algebraic lists by exact NRA identities and completeness over a stated box.",
   ref="DESIGN.md 3/C16", tech="z3 LIA with one forall block (unbounded exponent vectors); QF_NRA identities for algebraic bases",
   note="Trusted: own trial-division factorisation, z3. Bounded: lists of length <= 3/4 over +-2^a3^b5^c and a stated algebraic alphabet; algebraic completeness only inside |e_i| <= 3/5."),
 "C02": dict(cat="translation_validation",
   text="The real normalize_program runs with every Transformer.execute observed; each changed pass (and source text vs parsed program, source vs final program) is compared by one z3 query per test function: expectation of one iteration from an arbitrary symbolic pre-state (auxiliaries unconstrained, so information carried across iterations is visible) and of the initial block, for all parameters. A single query covers all pre-states and hence all iteration counts.",
   ref="DESIGN.md 3/C02", tech="per-pass equivalence of one-iteration expectations from a symbolic pre-state, decided by z3 (QF_NRA) over a forking reference interpreter of both programs",
   note="Trusted: vlib/sem.py, vlib/distref.py, z3. Laws are compared through moments up to degree 2/3 over the source variables; typed variables assumed in their Polar types (C05); trivial_guard, Bernoulli abstraction of non-finite conditions, functional assignments and TruncNormal are outside."),
 "C03": dict(cat="other",
   text="For every monomial of every recurrence system the real RecBuilder produces on the program family, one z3 query decides E[M(post) | arbitrary typed pre-state] = recorded right-hand side for all pre-states and parameters (so for every reachable state and every n); initial values, closure, matrix rows, indicator polynomials and power reductions are separate queries.",
   ref="DESIGN.md 3/C03", tech="one-step symbolic pre-state identity queries (z3 QF_NRA) against the reference interpreter run on the normalised program",
   note="Trusted: vlib/sem.py, vlib/distref.py, z3. Assumes the finite types are sound (C05). A sat pre-state counts only if reached from the initial block within 6 iterations. Functional assignments (C13) and TruncNormal are outside."),
 "C05": dict(cat="other",
   text="The inferred types are shown to be an inductive invariant of the normalised program: for each typed variable and each path of one iteration from an arbitrary typed pre-state, 'value outside the type' is unsatisfiable; bounded exploration from the initial block (under normalised and source semantics) decides whether a non-inductive type set is actually violated. Several fixed-point budgets are exercised.",
   ref="DESIGN.md 3/C05", tech="inductive-step queries from a symbolic typed pre-state + bounded model checking from the initial block (z3)",
   note="Trusted: vlib/sem.py, z3. User-declared types are assumptions. An undefined initial value of a never-initialised auxiliary is not counted as a value it takes. Non-inductive but unreached within K iterations is reported inconclusive."),
 "C08": dict(cat="other",
   text="For each family the real get_moment/cf/mgf/get_support/is_discrete are run on symbolic parameters where the implementation accepts them (Bernoulli, Uniform, Exponential, Categorical) and on a stated grid otherwise; moments k = 0..8 are compared with textbook recurrences by z3 over all admissible parameters, transforms with exp/sin/cos uninterpreted and e^{imt} on the unit circle, Taylor coefficients to order 4, support containment as a query, and DistTransformer's location/scale rewriting by the one-iteration law comparison of C02.",
   ref="DESIGN.md 3/C08", tech="symbolic-parameter execution of the distribution classes + z3 (QF_NRA / QF_UFNRA) against textbook reference moments and transforms",
   note="Trusted: vlib/distref.py, checks/c08.py:ref_transform, z3. Normal/Laplace/Gamma/Beta/DiscreteUniform moments only on a parameter grid (their implementation needs numbers); TruncNormal moment values, Beta transforms, Gamma transforms with non-integer shape are outside."),
 "C11": dict(cat="other",
   text="The real conversion functions and goal handlers are run on symbolic moment vectors (get_all_moments stubbed) and on a generic 3-atom law; central moments and cumulants are compared with their definitions (explicit polynomials, additivity, shift, homogeneity), the printed Markov and second-moment bounds are proved valid for every 3-atom law and threshold by QF_NRA queries, Gram-Charlier moments and the Cornish-Fisher polynomial are compared with the textbook for K <= 5, comb against Pascal's triangle for n <= 64, goal strings against their intended reading.",
   ref="DESIGN.md 3/C11", tech="symbolic-data execution + z3 identity / validity queries over generic finite laws and symbolic moment and cumulant vectors",
   note="Trusted: textbook formulas in checks/c11.py, z3. Bounded: orders <= 6, K <= 5, laws with <= 3 atoms, three tail programs with n <= 4/6. Known finding: c1 is reported as the mean."),
 "C13": dict(cat="other",
   text="The real get_func_moment / get_trig_moment / get_exp_moment run on a Dirac stub distribution at a symbolic point X; the returned term must equal X^a sin^b X cos^c X (resp. X^a exp(cX)) for all X, decided by z3 with (cos X, sin X) on the unit circle and exp X > 0, for all exponent triples up to a bound; mixing of Exp with Sin/Cos must be rejected; mgf existence regions and rejection outside them; constants; and end-to-end closed forms (exact mode) of programs whose functional arguments are finitely-valued draws, references or constants against the reference semantics.",
   ref="DESIGN.md 3/C13", tech="symbolic-data execution on a Dirac stub + z3 over the unit-circle / positive-exponential abstraction; end-to-end z3 equivalence with sin/cos/exp of constants as algebraic atoms",
   note="Trusted: linearity of expectation in the law (Dirac identities transfer given correct transforms, which C08 checks), z3. Bounded: (a,b,c) <= (2,3,3) quick / (3,4,4) thorough; six end-to-end programs, n <= 3/5. The 20-digit rounding of non-exact mode and end-to-end functionals of continuous draws are outside."),
 "C18": dict(cat="other",
   text="Solver-decided kernels: the real Graph.get_defective_nodes / is_variable_in_nonlinear_cycle / get_reachable_variables are executed path by path on symbolic adjacency labels and every feasible path is closed by an unsat query against a declarative specification, for ALL 3-node graphs (4 nodes with 8 symbolic edges in the thorough tier); Atom.get_normalized / to_arithm are shown equivalent to the comparison on the type for all operators and a family of finite types. Acceptance of the documented class is exercised by enumerating programs of the class (corpus + generated family): a refusal is a violation, known refusal mechanisms are listed by call site.",
   ref="DESIGN.md 3/C18", tech="per-path symbolic execution with z3 proxies (pathfork) of the classification and atom kernels; enumeration of class programs for acceptance (not a solver verdict, labelled as such)",
   note="Trusted: declarative specification of defective variables in checks/c18.py, z3. Universal acceptance over all program shapes is outside the reach of this technique: shapes are enumerated. Whatever is accepted is judged for correctness by C01 on the same corpus."),
 "C15": dict(cat="other",
   text="CPT assembly: the real NetworkTransformer.__add_cpt__ is executed path by path on symbolic probabilities for every combination of present notations and every path is closed by z3 against an overlay specification (accept iff rows complete and within tolerance; stored table = default, then table in column-major order, then entries). Generation and queries: CPT entries are symbols; the real CodeGenerator, query classes, parser and analysis run on them and the results are compared by z3 with enumeration of the joint law (every joint valuation after one iteration; E(X^k | evidence); 1/P(evidence)) for all CPT values in (0,1).",
   ref="DESIGN.md 3/C15", tech="per-path symbolic execution (pathfork, floats as reals) of CPT assembly + symbolic-CPT execution of generator/queries with z3 equivalence to joint-law enumeration",
   note="Trusted: the overlay specification and joint-law enumeration in checks/c15.py, vlib/sem.py (reads the generated text), z3. Lark parsing of BIF text is only validated on generated concrete texts; floats are modelled as reals; sampling-time queries use rational CPT values (the limit of a parametric geometric sequence is refused by sympy)."),
 "C12": dict(cat="other",
   text="The real Simulator.execute/simulate and Assignment.evaluate are executed path by path with z3 proxies on statement skeletons (if/elif/else, nesting, sequencing, guarded assignments with defaults, guard with stuttering) over a symbolic state; every path is closed against a reference semantics. The real sample() bodies are run with their module namespace rebound so that the arguments handed to scipy become symbolic terms; for every admissible parameter and every value allowed by scipy's documented contract the returned value lies in the declared support, and the contract's mean and variance equal the moments used by the analysis. Choice sites and whole trajectories are validated on concrete scripted runs (every discrete path of <= 2/3 iterations).",
   ref="DESIGN.md 3/C12", tech="per-path symbolic execution with z3 proxies (pathfork) + module-namespace injection for samplers; concrete scripted trajectory validation where symengine blocks symbolic execution",
   note="Trusted: reference semantics in checks/c12.py, scipy's documented contracts as stubs, z3. Numeric evaluation through symengine.subs/float cannot be executed symbolically: agreement of whole trajectories is validated concretely (reported as traces_validated_against_impl), not decided by the solver."),
 "C09": dict(cat="translation_validation",
   text="For guarded programs the real get_moment_given_termination sequence is compared at every n <= N with E[M 1{stopped by n}]/P(stopped by n) of the reference semantics by one cross-multiplied z3 query over all parameter values; the negated-guard indicator polynomial is checked on the types; the value reported after the loop is compared with an independently derived limit of the verified sequence (exponential-polynomial shape, |b/B| < 1 proved by the solver).",
   ref="DESIGN.md 3/C09", tech="z3 equivalence of the reported conditional-moment sequence with the k-step reference semantics conditioned on termination; independent limit derivation",
   note="Trusted: vlib/sem.py, z3. 'Stopped by n' is read operationally (one of the first n guard evaluations was false). Bounded: n <= 4/6; the limit leg only for numeric bases; divergence reporting only where the shape forces it; limits sympy cannot compute are refusals."),
 "C10": dict(cat="translation_validation",
   text="For programs with symbolic parameters both sensitivity methods of the real code (DiffRecBuilder recurrences solved for delta*M, and differentiation of the closed form) are compared at every n <= N with the parameter derivative of the k-step reference expectation (differentiated symbolically in the harness's own polynomial arithmetic) by one z3 query over all parameter values; get_dependent_variables is checked to contain every variable whose expectation depends on the parameter.",
   ref="DESIGN.md 3/C10", tech="z3 equivalence of the reported sensitivity with d/dp of the reference semantics' expectation (both methods)",
   note="Trusted: vlib/sem.py, vlib/qpoly.py:diff, z3. Bounded: n <= 3/5, <= 2 parameters and <= 3 goals per program; programs whose branch conditions depend on the parameter are outside."),
 "C17": dict(cat="translation_validation",
   text="For each program the real pipeline runs under the default and under each representation/strategy setting (conditions to arithmetic, categorical expansion, forced cyclic solver, declared types with and without inference); whenever a goal succeeds under two settings the closed forms are compared at every n <= N by one z3 query over all parameter values (and against the reference semantics on disagreement). Numeric-root options are compared numerically for the exactness flag and an envelope; the CLI flag-to-setting mapping is enumerated.",
   ref="DESIGN.md 3/C17", tech="pairwise z3 equivalence of closed forms produced under different settings by the real pipeline",
   note="Trusted: z3; vlib/sem.py when a disagreement is attributed. Bounded: n <= 3/5. Refusals under a setting are permitted by the property and counted. Results containing the constant of a Bernoulli abstraction are outside (not a free parameter)."),
 "C19": dict(cat="translation_validation",
   text="Arithmetic: for texts enumerated from a bounded operator grammar the polynomial the real parser produces is compared with the value Python's own grammar assigns to the same text by one z3 query over all variable values. Spellings: every program of the corpora and of the generated family is printed in nine spellings (whitespace/comments/CRLF/tabs, parentheses, decimals, explicit last probability, temporaries instead of simultaneous assignment, nested else-if); the real parser's result is compared with the denoted program by one-iteration and initial-block test-function expectations for all pre-states and parameters (and closed forms at n <= 3 in the thorough tier). Ill-formed texts and invalid probability vectors must be rejected (enumerated).",
   ref="DESIGN.md 3/C19", tech="z3 equivalence of parsed polynomial vs Python-precedence value; one-iteration law equivalence (C02 machinery) between the parsed spelling and the denoted program",
   note="Trusted: Python's ast for precedence, the harness's own reader/printer (it must read all its own spellings as one program, harness error otherwise), vlib/sem.py, z3. The text itself is not symbolic: texts are enumerated from the rewrite system and expression grammar."),
 "C20": dict(cat="exploration",
   text="Process histories are enumerated (each in a fresh interpreter: repetition, prefixes of other analyses, permutations of goals, PYTHONHASHSEED values, exact-mode flag flips, a settings residue after PlotAction, multi-benchmark CLI runs) and the result of the last analysis is compared with the same analysis in a fresh process. Equality 'up to names of generated symbols' is decided semantically: closed forms by z3 equivalence at every n <= 4 for all parameter values, invariants by mutual ideal inclusion, inferred types by value sets, error outcomes by type.",
   ref="DESIGN.md 3/C20", tech="enumeration of process histories; z3 decides semantic equality of the results (the history quantifier itself is not symbolic)",
   note="The quantifier of this property ranges over concrete process runs, which no solver encodes: histories of <= 3 analyses, <= 3 goals, 4/16 hash seeds are enumerated. The solver removes the false alarms a textual comparison would raise (term order changes with the hash seed)."),
 "C14": dict(cat="translation_validation",
   text="For the unsolvable benchmark loops the real synth_inv / synth_loop run with the candidate sets and degrees of the repository's tests (thorough: more loops); for every returned pair (Q, f) one z3 query per n <= N decides E[Q(state_n)] = f(n) against the reference semantics of the original loop, for all initial values and all free coefficients of the solution family; every synthesised solvable loop is read back and its variables (including the fresh combination variable) are compared with the original loop's expectations at n <= N.",
   ref="DESIGN.md 3/C14", tech="z3 equivalence of synthesised closed forms / synthesised programs with the k-step reference semantics of the original loop",
   note="Trusted: vlib/sem.py, z3. Bounded: n <= 3/4 (expression growth of non-linear loops), the listed loops, candidate sets and degrees; the classification kernel is C18's solver-decided leg."),
}
NA_REASON = "check not built yet in this session (see DESIGN.md section 3 for the planned solver-based check)"

def main():
    checks = []
    for pid in ALL:
        if pid not in CHECKS: continue
        c = CHECKS[pid]
        checks.append({
            "property_id": pid,
            "quick_cmd": f"./check {pid} --tier quick",
            "thorough_cmd": f"./check {pid} --tier thorough",
            "evidence_file": f"/verif/evidence/{pid}.json",
            "replay_cmd_template": f"./check {pid} --replay {{path}}",
            "engine": "polar-smt",
            "level_claimed": {"category": c["cat"], "text": c["text"], "design_ref": c["ref"]},
            "level_note": c["note"],
            "technique": c["tech"],
        })
    na = [{"property_id": p, "reason": NA.get(p, NA_REASON)} for p in ALL if p not in CHECKS]
    m = {
        "version": 1,
        "setup_cmd": "./setup.sh",
        "hooks": {"guard": "POLAR_VERIF", "enable": "no source hooks are needed: every observation point is a public function, an intermediate object or a module namespace rebound from outside; ./check exports POLAR_VERIF=1 for uniformity",
                  "baseline_off_cmd": "cd /repo && /venv/bin/python -m pytest -ra -q -p no:cacheprovider --timeout=900 --continue-on-collection-errors",
                  "source_commits": [], "add_only": True},
        "engines": [{"name": "polar-smt", "path": "/verif/vlib", "serves_properties": sorted(CHECKS),
                     "kind_free_text": "symbolic-data execution of the real sympy/symengine code + per-path symbolic execution of pure-Python leaves (z3 proxies / CrossHair); verification conditions discharged by z3 5.1, cross-checked by z3 4.8.12 and cvc5"}],
        "checks": checks,
        "not_applicable": na,
        "notes": "Solver-based checking of the real code; every claim is bounded as stated in its level_note and evidence. Exit codes: 0 held / 1 violation (VIOLATION line) / 2 harness error.",
    }
    json.dump(m, open(os.path.join(ROOT, "MANIFEST.json"), "w"), indent=1)
    import jsonschema
    jsonschema.validate(m, json.load(open("/root/.vp/MANIFEST.schema.json")))
    print("MANIFEST ok:", len(checks), "checks,", len(na), "not applicable")

NA = {}
if __name__ == "__main__":
    main()
