#!/usr/bin/env python3
"""Regenerates /verif/MANIFEST.json from the table below (keeps it schema-valid at all times)."""
import json, os, sys
ROOT = os.path.dirname(os.path.dirname(os.path.abspath(__file__)))
ALL = [f"C{i:02d}" for i in range(1, 21)]

CHECKS = {
 "C01": dict(cat="translation_validation",
   text="Bounded solver-based differential check: for each program of a stated family and each goal monomial, the closed form the real pipeline returns is compared at every n <= N with the k-step reference semantics by one z3 query over all values of parameters and initial values; sat models are replayed exactly on the real code before they count.",
   ref="DESIGN.md 3/C01", tech="symbolic-data execution of the real pipeline + z3 (QF_NRA) equivalence queries against an independent reference interpreter",
   note="Trusted: vlib/sem.py semantics, vlib/distref.py reference moments, z3. Assumed: probabilities in [0,1], admissible distribution parameters, non-zero denominators of the reported formula. Bounded: n <= N (4 quick / 6 thorough), program family of vlib/progfamily.py + corpus/ + repo benchmarks; TruncNormal, Sin/Cos/Exp and conditions on continuous draws are outside."),
}
NA_REASON = "check not built yet in this session (see DESIGN.md section 3 for the planned solver-based check)"

def main():
    checks = []
    for pid in ALL:
        if pid not in CHECKS: continue
        c = CHECKS[pid]
        checks.append({
            "property_id": pid,
            "quick_cmd": f"./check {pid} --tier quick",
            "thorough_cmd": f"./check {pid} --tier thorough",
            "evidence_file": f"/verif/evidence/{pid}.json",
            "replay_cmd_template": f"./check {pid} --replay {{path}}",
            "engine": "polar-smt",
            "level_claimed": {"category": c["cat"], "text": c["text"], "design_ref": c["ref"]},
            "level_note": c["note"],
            "technique": c["tech"],
        })
    na = [{"property_id": p, "reason": NA.get(p, NA_REASON)} for p in ALL if p not in CHECKS]
    m = {
        "version": 1,
        "setup_cmd": "./setup.sh",
        "hooks": {"guard": "POLAR_VERIF", "enable": "no source hooks are needed: every observation point is a public function, an intermediate object or a module namespace rebound from outside; ./check exports POLAR_VERIF=1 for uniformity",
                  "baseline_off_cmd": "cd /repo && /venv/bin/python -m pytest -ra -q -p no:cacheprovider --timeout=900 --continue-on-collection-errors",
                  "source_commits": [], "add_only": True},
        "engines": [{"name": "polar-smt", "path": "/verif/vlib", "serves_properties": sorted(CHECKS),
                     "kind_free_text": "symbolic-data execution of the real sympy/symengine code + per-path symbolic execution of pure-Python leaves (z3 proxies / CrossHair); verification conditions discharged by z3 5.1, cross-checked by z3 4.8.12 and cvc5"}],
        "checks": checks,
        "not_applicable": na,
        "notes": "Solver-based checking of the real code; every claim is bounded as stated in its level_note and evidence. Exit codes: 0 held / 1 violation (VIOLATION line) / 2 harness error.",
    }
    json.dump(m, open(os.path.join(ROOT, "MANIFEST.json"), "w"), indent=1)
    import jsonschema
    jsonschema.validate(m, json.load(open("/root/.vp/MANIFEST.schema.json")))
    print("MANIFEST ok:", len(checks), "checks,", len(na), "not applicable")

NA = {}
if __name__ == "__main__":
    main()
