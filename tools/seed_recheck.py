#!/usr/bin/env python3
"""Development tool: re-evaluate every stored seeded change against the CURRENT /repo HEAD and the CURRENT checks.
For each /verif/seeded/<id>/ : scratch worktree of /repo at HEAD under a mktemp directory, apply patch.diff, run the
quick tier of the property's own check plus the checks that caught it before, store the outcome as
meta.json["evaluation"]["recheck"] = {"head": ..., "checks": {id: rc}, "caught_by": [...]} and remove the worktree.
usage: seed_recheck.py [--jobs J] [seed-id ...]"""
import json
import os
import subprocess
import sys
import tempfile
from concurrent.futures import ThreadPoolExecutor

VERIF = os.path.dirname(os.path.dirname(os.path.abspath(__file__)))


def sh(c, **k):
    return subprocess.run(c, shell=True, capture_output=True, text=True, **k)


def one(sid):
    d = os.path.join(VERIF, "seeded", sid)
    mp = os.path.join(d, "meta.json")
    meta = json.load(open(mp))
    ev = meta.setdefault("evaluation", {})
    own = meta.get("property") or sid.split("-")[0]
    checks = [own] + [c for c in (ev.get("caught_by") or []) + list((ev.get("checks") or {}).keys()) + list((ev.get("checks_quick") or {}).keys())
                      + list(((ev.get("recheck") or {}).get("checks") or {}).keys()) if c != own]
    checks = list(dict.fromkeys(checks))
    wt = tempfile.mkdtemp(prefix="wt_recheck_")
    os.rmdir(wt)
    head = sh("git -C /repo rev-parse --short HEAD").stdout.strip()
    res = {}
    try:
        if sh(f"git -C /repo worktree add -q {wt} HEAD").returncode != 0:
            return sid, {"error": "worktree"}
        if sh(f"git -C {wt} apply {d}/patch.diff").returncode != 0:
            return sid, {"head": head, "error": "patch does not apply to the current HEAD"}
        env = dict(os.environ, POLAR_REPO=wt, VERIF_NPROC="6")
        # is the change still a violation on the current HEAD?  (a later fix may have neutralised it)
        demo = "demo.py" if os.path.exists(f"{d}/demo.py") else "demo.sh"
        sh(f"mkdir -p {wt}/_seed && cp {d}/* {wt}/_seed/")
        try:
            drc = sh(f"cd {wt} && " + (f"/venv/bin/python _seed/{demo}" if demo.endswith(".py") else f"bash _seed/{demo}"), timeout=1500).returncode
        except subprocess.TimeoutExpired:
            drc = 124
        wit = {}
        for c in checks:
            o = sh(f"cd {VERIF} && ./check {c} --tier quick --no-evidence", env=env, timeout=3000)
            res[c] = o.returncode
            if o.returncode == 1 and c not in wit:
                lines = o.stdout.splitlines()
                for i, ln in enumerate(lines):
                    if ln.startswith("VIOLATION") and i + 1 < len(lines):
                        wit[c] = lines[i + 1].strip()[:240]
                        break
        out = {"head": head, "demo_with_change_rc": drc, "still_violates": drc != 0, "checks": res, "caught_by": [c for c, rc in res.items() if rc == 1], "witness": wit}
    finally:
        sh(f"git -C /repo worktree remove --force {wt}")
    ev["recheck"] = out
    json.dump(meta, open(mp, "w"), indent=1)
    return sid, out


def main():
    args = sys.argv[1:]
    jobs = 3
    if args and args[0] == "--jobs":
        jobs = int(args[1])
        args = args[2:]
    sids = args or sorted(x for x in os.listdir(os.path.join(VERIF, "seeded")) if os.path.isdir(os.path.join(VERIF, "seeded", x)))
    with ThreadPoolExecutor(max_workers=jobs) as ex:
        for sid, out in ex.map(one, sids):
            print(sid, out.get("caught_by"), out.get("checks"), out.get("error", ""), flush=True)
    sh("git -C /repo worktree prune")


if __name__ == "__main__":
    main()
