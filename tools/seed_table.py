#!/usr/bin/env python3
"""prints the markdown table of DESIGN.md 9.6 from /verif/seeded/*/meta.json"""
import glob, json, os
rows = []
for d in sorted(glob.glob("/verif/seeded/*/")):
    mp = d + "meta.json"
    if not os.path.exists(mp): continue
    m = json.load(open(mp)); ev = m.get("evaluation", {})
    sid = os.path.basename(d.rstrip("/"))
    files = ", ".join(m.get("files_changed", []))
    need = (m.get("needs_to_manifest", "") or "").replace("\n", " ").replace("|", "\\|")
    need = need[:230] + ("..." if len(need) > 230 else "")
    caught = ", ".join(ev.get("caught_by", [])) or "-"
    others = ", ".join(c for c, v in ev.get("checks_quick", {}).items() if v["rc"] != 1) or ""
    rows.append(f"| {sid} | {m.get('property')} | `{files}` | {need} | {caught} | {others} |")
print("| Seed | Property | File | Needs to manifest | Caught by (quick) | Run but silent |\n|---|---|---|---|---|---|")
print("\n".join(rows))
