#!/usr/bin/env python3
"""prints the markdown table of DESIGN.md 9.6 from /verif/seeded/*/meta.json"""
import glob, json, os
# seeds the checks missed when they were first run against them (before any strengthening); for some round-2 seeds the first
# evaluation was contaminated by defects of the base tree that were found in the same hours, so the list is kept by hand
MISSED_FIRST = {"C06-a-symbol-order", "C08-a-uniform-parens", "C13-a-exp-existence", "C14-a-init-value", "C15-a-name-collision", "C18-a-single-info-pass", "C20-a-value-hash",
                "C01-b-and-implied", "C02-b-abstracted-vars", "C03-b-binary-range", "C04-b-valid-from", "C06-b-param-named-n", "C08-b-beta-mgf-scale", "C09-b-neq-guard-mark",
                "C11-b-cornish-fisher-weights", "C12-b-weight-cache", "C13-b-reference-order", "C14-b-zero-multiplier", "C17-b-exact-flag", "C19-b-const-simult", "C20-b-shared-support",
                "C02-c-float-alias", "C03-c-shared-context", "C12-c-shared-initial-state", "C14-c-effective-cache", "C17-c-moments-flag", "C19-c-decimal-condition",
                "C06-c-lattice-cache", "C08-c-laplace-scale", "C11-c-shared-cf-cache", "C13-c-choice-constant", "C15-c-helper-name-clash", "C16-c-faccin-height"}
rows = []
for d in sorted(glob.glob("/verif/seeded/*/")):
    mp = d + "meta.json"
    if not os.path.exists(mp):
        continue
    m = json.load(open(mp))
    ev = m.get("evaluation", {})
    sid = os.path.basename(d.rstrip("/"))
    files = ", ".join(m.get("files_changed", []))
    need = (m.get("needs_to_manifest", "") or "").replace("\n", " ").replace("|", "\\|")
    need = need[:200] + ("..." if len(need) > 200 else "")
    first = "missed" if sid in MISSED_FIRST else "caught"
    if sid == "C11-b-cornish-fisher-weights":
        first = "missed by quick (K <= 4), caught by thorough"
    rc = ev.get("recheck", {})
    now = ", ".join(rc.get("caught_by", [])) or "-"
    if rc and not rc.get("still_violates", True):
        now = "(neutralised: the demonstration passes with the change on the current HEAD)"
    silent = ", ".join(c for c, v in (rc.get("checks") or {}).items() if v != 1) or ""
    rows.append(f"| {sid} | `{files}` | {need} | {first} | {now} | {silent} |")
print("| Seed | File | Needs to manifest | Caught at first run | Caught now (quick, current HEAD) | Run but silent |\n|---|---|---|---|---|---|")
print("\n".join(rows))
