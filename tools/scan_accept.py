#!/usr/bin/env python3
"""Development tool: acceptance and inferred types of every .prob file of a tree:  /venv/bin/python scan_accept.py <repo dir> <out.json>.
Run it on the tree before and after a fix and diff the two files: a repair must not turn accepted repository programs into refusals."""
import sys, glob, json, os, signal
repo=sys.argv[1]
sys.path.insert(0,repo)
os.chdir(repo)
from inputparser import Parser
from program import normalize_program
from program.type import Finite
res={}
def alarm(*a): raise TimeoutError()
signal.signal(signal.SIGALRM, alarm)
for f in sorted(glob.glob(repo+'/benchmarks/**/*.prob',recursive=True)+glob.glob(repo+'/tests/**/*.prob',recursive=True)):
    k=os.path.relpath(f,repo)
    try:
        signal.alarm(20)
        p=normalize_program(Parser().parse_file(f))
        signal.alarm(0)
        res[k]={"ok":True,"types":sorted(f"{v}:{sorted(map(str,t.values))}" for v,t in p.typedefs.items() if isinstance(t,Finite) and not str(v).startswith('_'))}
    except TimeoutError:
        res[k]={"ok":"timeout"}
    except Exception as e:
        signal.alarm(0)
        res[k]={"ok":False,"exc":type(e).__name__+": "+str(e)[:100]}
json.dump(res,open(sys.argv[2],'w'))
