#!/usr/bin/env python3
"""Development tool (not a registered command): single-point mutation campaign.

For each anchored source file a set of AST-level single-point mutants is generated (comparison / arithmetic / boolean
operator swaps, constant +-1, dropped `not`, swapped if/else of conditional expressions).  Each mutant lives in a scratch
copy of the repository under a mktemp directory OUTSIDE /repo and /verif (removed afterwards), is first filtered by the
repository's own test suite (a mutant the suite kills is of no interest) and then handed to the quick checks of the
properties anchored in that file via POLAR_REPO.  Output: one JSON line per surviving mutant with the checks that catch it.

usage: mutate.py OUT.jsonl [--files f1,f2] [--max-per-file N] [--jobs J] [--seed S]
"""
import argparse
import ast
import copy
import json
import os
import random
import shutil
import subprocess
import sys
import tempfile
from concurrent.futures import ThreadPoolExecutor

REPO = "/repo"
VERIF = os.path.dirname(os.path.dirname(os.path.abspath(__file__)))
TARGETS = {  # file -> properties whose checks should see a semantic change there
    "recurrences/rec_builder.py": ["C01", "C03", "C13"],
    "recurrences/recurrences.py": ["C03", "C04", "C01"],
    "recurrences/solver/acyclic_solver.py": ["C04", "C01"],
    "recurrences/solver/cyclic_solver.py": ["C04", "C01", "C17"],
    "program/transformer/if_transformer.py": ["C02", "C01"],
    "program/transformer/multi_assign_transformer.py": ["C02", "C01"],
    "program/transformer/conditions_reducer.py": ["C02", "C01"],
    "program/transformer/constants_transformer.py": ["C02", "C01"],
    "program/transformer/loop_guard_transformer.py": ["C02", "C09", "C01"],
    "program/transformer/dist_transformer.py": ["C08", "C02", "C01"],
    "program/transformer/conditions_normalizer.py": ["C02", "C09", "C18"],
    "program/transformer/conditions_to_arithm.py": ["C17", "C02"],
    "program/condition/atom_cond.py": ["C03", "C18", "C02"],
    "program/condition/and_cond.py": ["C03", "C05", "C02"],
    "program/condition/or_cond.py": ["C03", "C02"],
    "program/condition/not_cond.py": ["C03", "C02"],
    "program/assignment/poly_assignment.py": ["C03", "C05", "C19", "C01"],
    "program/assignment/dist_assignment.py": ["C03", "C05", "C13"],
    "program/assignment/assignment.py": ["C12", "C02"],
    "program/assignment/functional_assignment.py": ["C13"],
    "program/type/finite.py": ["C03", "C05"],
    "utils/finite_power_reduction.py": ["C03"],
    "utils/conditions.py": ["C18", "C12", "C02"],
    "utils/expressions.py": ["C03", "C04", "C09", "C01"],
    "utils/statistics.py": ["C11"],
    "utils/graph.py": ["C18", "C14"],
    "type_inference/finite_fixed_point_typer.py": ["C05", "C03"],
    "invariants/exponent_lattice.py": ["C16", "C06"],
    "invariants/lattice_ideal.py": ["C06", "C07"],
    "invariants/invariant_ideal.py": ["C06", "C07"],
    "program/distribution/uniform.py": ["C08", "C12"],
    "program/distribution/normal.py": ["C08", "C12"],
    "program/distribution/laplace.py": ["C08", "C12"],
    "program/distribution/exponential.py": ["C08", "C12", "C13"],
    "program/distribution/categorical.py": ["C08", "C12"],
    "program/distribution/discrete_uniform.py": ["C08", "C13"],
    "program/distribution/gamma.py": ["C08", "C12"],
    "program/distribution/beta.py": ["C08", "C12"],
    "program/distribution/bernoulli.py": ["C08", "C12"],
    "cli/common.py": ["C09", "C15", "C11"],
    "cli/actions/goals_action.py": ["C11", "C20", "C09"],
    "inputparser/structure_transformer.py": ["C19", "C02", "C17"],
    "inputparser/goal_parser.py": ["C11"],
    "recurrences/diff_rec_builder.py": ["C10"],
    "sensitivity_analysis/sensitivity_analyzer.py": ["C10"],
    "simulation/simulator.py": ["C12"],
    "bayesnet/transformer.py": ["C15"],
    "bayesnet/code_generator.py": ["C15"],
    "bayesnet/query/exact_inference_query.py": ["C15"],
    "bayesnet/query/sampling_time_query.py": ["C15"],
    "unsolvable_analysis/unsolv_inv_synthesizer.py": ["C14"],
    "unsolvable_analysis/solv_loop_synthesizer.py": ["C14"],
    "unsolvable_analysis/solvability_checker.py": ["C18", "C14"],
    "expansions/gram_charlier.py": ["C11"],
    "expansions/cornish_fisher.py": ["C11"],
    "utils/special_polys.py": ["C11"],
}
CMP = {ast.Lt: ast.LtE, ast.LtE: ast.Lt, ast.Gt: ast.GtE, ast.GtE: ast.Gt, ast.Eq: ast.NotEq, ast.NotEq: ast.Eq}
BIN = {ast.Add: ast.Sub, ast.Sub: ast.Add, ast.Mult: ast.Add}


class Collector(ast.NodeVisitor):
    def __init__(self):
        self.sites = []

    def generic_visit(self, node):
        if isinstance(node, ast.Compare) and len(node.ops) == 1 and type(node.ops[0]) in CMP:
            self.sites.append(("cmp", node))
        elif isinstance(node, ast.BinOp) and type(node.op) in BIN:
            self.sites.append(("bin", node))
        elif isinstance(node, ast.BoolOp):
            self.sites.append(("bool", node))
        elif isinstance(node, ast.UnaryOp) and isinstance(node.op, ast.Not):
            self.sites.append(("not", node))
        elif isinstance(node, ast.Constant) and isinstance(node.value, int) and not isinstance(node.value, bool) and 0 <= node.value <= 3:
            self.sites.append(("const", node))
        elif isinstance(node, ast.IfExp):
            self.sites.append(("ifexp", node))
        super().generic_visit(node)


def mutants_of(path, rnd, limit):
    src = open(path).read()
    tree = ast.parse(src)
    col = Collector()
    col.visit(tree)
    idx = list(range(len(col.sites)))
    rnd.shuffle(idx)
    out = []
    for i in idx[:limit * 3]:
        t2 = copy.deepcopy(tree)
        c2 = Collector()
        c2.visit(t2)
        kind, node = c2.sites[i]
        desc = f"{kind}@{getattr(node, 'lineno', '?')}"
        if kind == "cmp":
            node.ops = [CMP[type(node.ops[0])]()]
        elif kind == "bin":
            node.op = BIN[type(node.op)]()
        elif kind == "bool":
            node.op = ast.Or() if isinstance(node.op, ast.And) else ast.And()
        elif kind == "not":
            node.op = ast.UAdd()  # drops the negation (bool operands); replaced below by the operand
            parent_replace(t2, node, node.operand)
        elif kind == "const":
            node.value = node.value + 1
        elif kind == "ifexp":
            node.body, node.orelse = node.orelse, node.body
        try:
            code = ast.unparse(t2)
            compile(code, path, "exec")
        except Exception:
            continue
        line = src.splitlines()[getattr(node, "lineno", 1) - 1].strip() if hasattr(node, "lineno") else ""
        out.append((desc, code, line))
        if len(out) >= limit:
            break
    return out


def parent_replace(tree, old, new):
    for parent in ast.walk(tree):
        for field, val in ast.iter_fields(parent):
            if val is old:
                setattr(parent, field, new)
                return
            if isinstance(val, list):
                for j, x in enumerate(val):
                    if x is old:
                        val[j] = new
                        return


def sh(cmd, timeout=None, env=None):
    try:
        return subprocess.run(cmd, shell=True, capture_output=True, text=True, timeout=timeout, env=env)
    except subprocess.TimeoutExpired:
        class R:
            returncode = 124
            stdout = ""
            stderr = "timeout"
        return R()


def baseline_ok(d):
    """the pinned suite on the scratch copy: the same stable tests must pass"""
    x = os.path.join(d, "_junit.xml")
    sh(f"cd {d} && /venv/bin/python -m pytest -q -x -p no:cacheprovider --timeout=600 --deselect tests/bayesnet/test_parse_positive.py::ParseFileTest::test_mildew_medium "
       f"--ignore-glob='*test_case*' --junitxml={x} > /dev/null 2>&1", timeout=1500)
    try:
        import xml.etree.ElementTree as ET
        root = ET.parse(x).getroot()
        passed = failed = 0
        for tc in root.iter("testcase"):
            if tc.get("name") == "test_case":
                continue
            if any(c.tag in ("failure", "error") for c in tc):
                failed += 1
            else:
                passed += 1
        os.remove(x)
        return failed == 0 and passed >= 100, passed, failed
    except Exception:
        return False, 0, -1


def run_one(job):
    idx, rel, desc, code, line, props, keep_killed = job
    d = tempfile.mkdtemp(prefix="polar_mut_")
    rec = {"file": rel, "mutation": desc, "line": line}
    try:
        sh(f"cp -r {REPO}/. {d}/ && rm -rf {d}/.git")
        with open(os.path.join(d, rel), "w") as fh:
            fh.write(code)
        ok, p, f = baseline_ok(d)
        rec["suite"] = {"passed": p, "failed": f}
        if not ok:
            rec["killed_by_suite"] = True
            return rec
        env = dict(os.environ)
        env["POLAR_REPO"] = d
        env["VERIF_NPROC"] = "4"
        res = {}
        for prop in props:
            o = sh(f"cd {VERIF} && ./check {prop} --tier quick --no-evidence", timeout=2400, env=env)
            res[prop] = o.returncode
            if o.returncode == 1:
                rec.setdefault("witness", [l.strip()[:200] for l in o.stdout.splitlines() if l.startswith("  ")][:2])
                break
        rec["checks"] = res
        rec["caught"] = any(v == 1 for v in res.values())
        return rec
    finally:
        shutil.rmtree(d, ignore_errors=True)


def main():
    ap = argparse.ArgumentParser()
    ap.add_argument("out")
    ap.add_argument("--files", default=None)
    ap.add_argument("--max-per-file", type=int, default=3)
    ap.add_argument("--jobs", type=int, default=5)
    ap.add_argument("--seed", type=int, default=0)
    a = ap.parse_args()
    rnd = random.Random(a.seed)
    files = a.files.split(",") if a.files else sorted(TARGETS)
    jobs = []
    for rel in files:
        for desc, code, line in mutants_of(os.path.join(REPO, rel), rnd, a.max_per_file):
            jobs.append((len(jobs), rel, desc, code, line, TARGETS.get(rel, ["C01"]), False))
    print(f"{len(jobs)} mutants", flush=True)
    with open(a.out, "w") as fh, ThreadPoolExecutor(max_workers=a.jobs) as ex:
        for rec in ex.map(run_one, jobs):
            fh.write(json.dumps(rec) + "\n")
            fh.flush()
            if not rec.get("killed_by_suite"):
                print(rec["file"], rec["mutation"], "caught" if rec.get("caught") else "SURVIVED", rec.get("checks"), "|", rec["line"][:80], flush=True)


if __name__ == "__main__":
    main()
