#!/bin/bash
# runs every check's quick (or given) tier one after the other and prints verdict / wall time per check:  runall.sh [tier] ["C02 C03 ..."]
cd "$(dirname "$0")/.."
TIER=${1:-quick}
IDS=${2:-$(for i in $(seq -w 1 20); do echo C$i; done)}
for id in $IDS; do
  s=$(date +%s)
  out=$(./check $id --tier $TIER 2>&1)
  rc=$?
  e=$(date +%s)
  echo "$id rc=$rc $(echo "$out" | grep "^\[$id\]" | tail -1)"
  echo "$out" | grep -E "^(VIOLATION|KNOWN-FINDING|HARNESS-ERROR)" | cut -c1-200
done
