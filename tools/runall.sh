#!/bin/bash
# runs every check's quick (or given) tier one after the other and prints verdict / wall time per check
cd "$(dirname "$0")/.."
TIER=${1:-quick}
for i in $(seq -w 1 20); do
  id="C$i"
  s=$(date +%s)
  out=$(./check $id --tier $TIER 2>&1)
  rc=$?
  e=$(date +%s)
  echo "$id rc=$rc $(echo "$out" | grep "^\[$id\]" | tail -1)"
  echo "$out" | grep -E "^(VIOLATION|KNOWN-FINDING|HARNESS-ERROR)" | cut -c1-200
done
