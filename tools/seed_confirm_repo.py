#!/usr/bin/env python3
"""Development: the official confirmation of every stored seeded change: apply it to /repo itself, run the checks that are
expected to catch it (quick tier), undo it straight afterwards (git checkout).  Records 'confirmed_on_repo' in meta.json."""
import glob, json, os, subprocess, sys
def sh(c, **k): return subprocess.run(c, shell=True, capture_output=True, text=True, **k)
only = sys.argv[1:]
for d in sorted(glob.glob("/verif/seeded/*/")):
    sid = os.path.basename(d.rstrip("/"))
    if only and sid not in only: continue
    mp = d + "meta.json"
    if not os.path.exists(mp) or not os.path.exists(d + "patch.diff"): continue
    meta = json.load(open(mp))
    checks = meta.get("evaluation", {}).get("caught_by") or [meta.get("property")]
    assert sh("git -C /repo status --porcelain").stdout.strip() == "", "dirty /repo"
    if sh(f"git -C /repo apply {d}patch.diff").returncode != 0:
        print(sid, "patch does not apply to /repo"); continue
    res = {}
    try:
        for c in checks[:2]:
            o = sh(f"cd /verif && ./check {c} --tier quick --no-evidence", timeout=3000)
            res[c] = {"rc": o.returncode, "violation_lines": [l[:200] for l in o.stdout.splitlines() if l.startswith("VIOLATION")][:2]}
    finally:
        sh("git -C /repo checkout -- .")
    meta.setdefault("evaluation", {})["confirmed_on_repo"] = res
    json.dump(meta, open(mp, "w"), indent=1)
    print(sid, {c: v["rc"] for c, v in res.items()}, flush=True)
