#!/usr/bin/env python3
"""Development tool (not a registered command): for every `fix:` commit in /repo, reverse-apply it to the working tree,
run the quick checks of the properties it belongs to, expect a VIOLATION, and restore the tree.
Writes /verif/seeded/fix_regressions.json."""
import json, re, subprocess, sys
def sh(cmd, **kw):
    return subprocess.run(cmd, shell=True, capture_output=True, text=True, **kw)
kf = json.load(open("/verif/known_findings.json"))
commits = sh("git -C /repo log --format='%h %s' --grep='^fix:'").stdout.strip().splitlines()
only = sys.argv[1:] 
out = []
for line in commits[::-1]:
    h, subj = line.split(" ", 1)
    if only and h not in only: continue
    props = set()
    for e in kf:
        if e.get("kind") == "fixed" and e.get("commit", "").startswith(h[:7]):
            props.add(e["property"])
            props |= set(re.findall(r"C\d\d", e.get("what", "")))
    if not props:
        out.append({"commit": h, "subject": subj, "note": "no known_findings entry"}); continue
    assert sh("git -C /repo status --porcelain").stdout.strip() == "", "dirty /repo"
    r = sh(f"git -C /repo show {h} | git -C /repo apply -R")
    if r.returncode != 0:
        out.append({"commit": h, "subject": subj, "note": "reverse patch does not apply (later fixes touch the same lines)"}); sh("git -C /repo checkout -- ."); continue
    res = {}
    try:
        for p in sorted(props):
            o = sh(f"cd /verif && ./check {p} --tier quick --no-evidence", timeout=1500)
            res[p] = {"rc": o.returncode, "violations": [l[:160] for l in o.stdout.splitlines() if l.startswith("VIOLATION") or l.startswith("  ")][:6]}
    finally:
        sh("git -C /repo checkout -- .")
    out.append({"commit": h, "subject": subj, "checks": res, "caught_by": [p for p, v in res.items() if v["rc"] == 1]})
    print(h, subj[:60], "->", {p: v["rc"] for p, v in res.items()}, flush=True)
if only:
    # merge into the stored results
    try:
        prev = json.load(open("/verif/seeded/fix_regressions.json"))
    except Exception:
        prev = []
    done = {e["commit"] for e in out}
    out = [e for e in prev if e["commit"] not in done] + out
json.dump(out, open("/verif/seeded/fix_regressions.json", "w"), indent=1)
