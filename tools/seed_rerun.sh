#!/bin/bash
# development: re-run checks against a stored seeded change in a scratch worktree:  seed_rerun.sh <seed-id> <check> [<check>...]
id=$1; shift
wt=$(mktemp -d /tmp/wt_re_XXXX); rmdir $wt
git -C /repo worktree add -q $wt HEAD || exit 2
git -C $wt apply /verif/seeded/$id/patch.diff || { echo "patch does not apply"; git -C /repo worktree remove --force $wt; exit 2; }
for c in "$@"; do
  out=$(cd /verif && POLAR_REPO=$wt ./check $c --tier ${TIER:-quick} --no-evidence 2>&1); rc=$?
  echo "$id $c rc=$rc $(echo "$out" | grep '^\[' | tail -1 | cut -c1-120)"
  echo "$out" | grep -A1 "^VIOLATION" | grep "^  " | head -2 | cut -c1-220
done
git -C /repo worktree remove --force $wt
