#!/usr/bin/env python3
"""Runs the pinned test suite of /repo and compares with /root/.vp/BASELINE.json (stable_pass must all pass)."""
import json, subprocess, sys, tempfile, os
import xml.etree.ElementTree as ET
d = tempfile.mkdtemp(prefix="polar_baseline_")
x = os.path.join(d, "j.xml")
subprocess.run(f"cd /repo && /venv/bin/python -m pytest -ra -q -p no:cacheprovider --timeout=900 --continue-on-collection-errors --junitxml={x}", shell=True, stdout=subprocess.DEVNULL, stderr=subprocess.DEVNULL)
base = json.load(open("/root/.vp/BASELINE.json"))
passed = set()
for tc in ET.parse(x).getroot().iter("testcase"):
    if not any(c.tag in ("failure", "error", "skipped") for c in tc):
        passed.add(f"{tc.get('classname')}::{tc.get('name')}")
missing = [t for t in base["stable_pass"] if t not in passed]
print(f"passed {len(passed)}; baseline {len(base['stable_pass'])}; baseline tests not passing: {len(missing)}")
for m in missing: print("  FAIL", m)
os.remove(x); os.rmdir(d)
sys.exit(1 if missing else 0)
