#!/usr/bin/env python3
"""Development tool: confirm a seeded change (patch in <worktree>/_seed/) and run checks against it.
usage: seed_eval.py <worktree> <seed-id> <check> [<check> ...]
Confirms: patch applies to a clean HEAD; the pinned suite passes with it; the demo fails with it and passes without it.
Then runs the given checks (quick) with POLAR_REPO=<worktree> and records everything in /verif/seeded/<seed-id>/meta.json."""
import json, os, shutil, subprocess, sys, xml.etree.ElementTree as ET
wt, sid, checks = sys.argv[1], sys.argv[2], sys.argv[3:]
def sh(c, **k): return subprocess.run(c, shell=True, capture_output=True, text=True, **k)
out = f"/verif/seeded/{sid}"
os.makedirs(out, exist_ok=True)
for f in os.listdir(f"{wt}/_seed"):
    p = f"{wt}/_seed/{f}"
    if os.path.isfile(p) and os.path.getsize(p) < 200000:
        shutil.copy(p, out)
meta = json.load(open(f"{out}/meta.json")) if os.path.exists(f"{out}/meta.json") else {}
ev = {}
# the worktree must contain exactly the patch
sh(f"cd {wt} && git checkout -- . ")
r = sh(f"cd {wt} && git apply --check _seed/patch.diff")
ev["patch_applies_to_clean_head"] = r.returncode == 0
sh(f"cd {wt} && git apply _seed/patch.diff")
ev["files_changed"] = sh(f"cd {wt} && git diff --stat | tail -1").stdout.strip()
demo = "demo.py" if os.path.exists(f"{wt}/_seed/demo.py") else "demo.sh"
run = (f"/venv/bin/python _seed/{demo}" if demo.endswith(".py") else f"bash _seed/{demo}")
ev["demo_with_change_rc"] = sh(f"cd {wt} && {run}", timeout=1200).returncode
sh(f"cd {wt} && git apply -R _seed/patch.diff")
ev["demo_without_change_rc"] = sh(f"cd {wt} && {run}", timeout=1200).returncode
sh(f"cd {wt} && git apply _seed/patch.diff")
# pinned suite with the change
x = f"{wt}/_junit.xml"
sh(f"cd {wt} && /venv/bin/python -m pytest -q -p no:cacheprovider --timeout=900 --continue-on-collection-errors --junitxml={x}", timeout=3000)
base = json.load(open("/root/.vp/BASELINE.json"))
passed = set()
for tc in ET.parse(x).getroot().iter("testcase"):
    if not any(c.tag in ("failure", "error", "skipped") for c in tc):
        passed.add(f"{tc.get('classname')}::{tc.get('name')}")
os.remove(x)
missing = [t for t in base["stable_pass"] if t not in passed]
ev["suite_with_change"] = {"baseline_tests_passing": len(base["stable_pass"]) - len(missing), "baseline_tests_failing": missing}
res = {}
env = dict(os.environ); env["POLAR_REPO"] = wt
for c in checks:
    o = sh(f"cd /verif && ./check {c} --tier quick --no-evidence", env=env, timeout=3000)
    res[c] = {"rc": o.returncode, "lines": [l.strip()[:300] for l in o.stdout.splitlines() if l.startswith("  ") and "[" in l][:3]}
ev["checks_quick"] = res
ev["caught_by"] = [c for c, v in res.items() if v["rc"] == 1]
meta["evaluation"] = ev
json.dump(meta, open(f"{out}/meta.json", "w"), indent=1)
print(sid, "valid=", ev["patch_applies_to_clean_head"] and ev["demo_with_change_rc"] != 0 and ev["demo_without_change_rc"] == 0 and not missing, "caught_by=", ev["caught_by"], {c: v["rc"] for c, v in res.items()})
